#!/usr/bin/env python3
"""Regenerates MANIFEST.json from the table below (run from /verif)."""
import json
props=[json.loads(l) for l in open('/verif/properties.jsonl')]
# property -> (level text, note)
claimed={
 "C09":("Every byte string within the bound is pushed through the real lexer symbolically and compared with an independent reference tokenizer, token by token; structural claims (order, containment, gaps), rescanning of each token's own text and the numeric accessors (Uint64; Float64 per concrete spelling) are asserted on every path; framed families put 2-3 free bytes around long runs (boundary numerics, long literals).",
        "Reference tokenizer (harness/h/reflex.go) is the oracle; float values needing more than one rounding step and two documented don't-cares are outside."),
 "C12":("Any Go panic or step-budget exhaustion of Scan/SplitStatements/Parse/Walk/Compile on any explored path is a violation, confirmed by native replay (5 s watchdog for hangs); inputs: all short byte strings and token sequences, 28 deep/long/wide program families with free tokens inside, 17 framed byte-level families.",
        "Engine semantics of panics; token-slot sources use the lexer summary derived from the real Scan on this run. The wall-clock clause is decided only for the listed families (instruction bound per path plus native watchdog)."),
 "C15":("SplitStatements, Scan and Parse run symbolically on every byte string within the bound; the five equations of the property are asserted on every path (full byte range and focused alphabets incl. exponents next to semicolons and a lone CR).",
        "Same trusted base as C09."),
 "C08":("Every token sequence within the bound (and every bounded corruption of the seed programs) is parsed by the real parser with token kinds and values symbolic; whenever parsing succeeds, an independent re-printer of the tree must account for every source token in order (only the documented omissions allowed).",
        "Re-printer (harness/h/reprint.go) walks exported fields only. Token-slot sources use the lexer summary derived from the real Scan on this run."),
 "C10":("On every accepted token sequence within the bound each recorded span must equal the span of the lexeme(s) it describes and each node's Span() the extent of its first to last token, contained in its parent's; token spans are symbolic terms, equalities decided by z3.",
        "For failed parses every span of the partial tree and every line:column prefix of the error texts is checked to lie in the source. Token spans themselves are C09's subject."),
 "C11":("On every accepted token sequence within the bound the real Walk is run; the visit sequence must contain every identifier/expression node exactly once, no nil, parents first, and with an arbitrary (symbolic) call index returning false exactly that node's descendants disappear; a traversal abandoned by a panicking visitor leaves no trace in the next one; deep and wide program families.",
        "Node enumeration through exported fields (harness/h/reprint.go) is the oracle."),
 "C13":("Either/or contract asserted on all bounded byte strings and token sequences with 5 parameter maps; 'fails exactly when' asserted against rule predicates R1-R4 evaluated on the real parser's tree for every token sequence within the bound and for corrupted seed programs with calls, joins and lets at depth.",
        "Rule predicates (harness/h/c13.go) transcribe the documented rules; R5/R6 are parse failures."),
 "C07":("An independent recursive-descent parser of the documented grammar (by precedence levels) runs on the same symbolic tokens; whenever it derives the sequence the real parser must succeed with a field-by-field equal tree (positions ignored; operator kinds, names, flags, defaults, optional parts). Families: all token sequences within the bound, operator ladders with arbitrary binary operators, seed programs and their corruptions, and layout/synonym variations through the real lexer.",
        "Reference grammar (harness/h/refparse.go) is the oracle; constructs not in it (chained indexing, comma before by) carry no claim."),
 "C05":("Every compiling token sequence within the bound, the seed programs with arbitrary corruptions and name-collision shapes are compiled by the real compiler; the emitted text (with symbolic bytes where names are arbitrary) is lexed by two independent SQL lexers and parsed by an independent statement parser: one statement, one final semicolon, no comment or unterminated token, [WITH ...] SELECT shape, every FROM/JOIN source a PQL table or an earlier CTE, generated names unique, every CTE used.",
        "SQL lexers/parser in harness/h are the oracle."),
 "C04":("At 24 positions where literal or name content can occur, the content is a vector of free bytes (and, for long contents, two free bytes around a fixed run of up to 257 / 4097 bytes) run through the real lexer, parser and compiler; the emitted SQL (containing those symbolic bytes) must lex, under both standard and ClickHouse rules, to the same token kinds as the same skeleton with benign content, with every other token byte-identical, no comment or unterminated token, and the content-derived token must decode under ClickHouse rules to exactly the value the reference token language gives the PQL literal (numbers: the same numeric value).",
        "Nothing stubbed. SQL lexers in harness/h/sqllex.go are the oracle."),
 "C01":("61 expression shapes (+5 join-condition shapes) with arbitrary binary operators, in up to 12 expression positions, are compiled by the real compiler; the emitted SQL expression is re-parsed with ClickHouse's operator priorities by an independent parser and mapped to a term of a value algebra (operators uninterpreted, coalesce/IS NULL/CASE interpreted); z3 decides, for all rows and all interpretations, equality with the term of the PQL expression as grouped by the real parser, and that ==/!= never yield NULL. Non-termination and comment-producing output are violations.",
        "ClickHouse priority table and the PQL meaning table (harness/h/valmap.go) are trusted transcriptions; the real parser's grouping is C07's subject."),
 "C06":("Programs built from let prefixes x use sites x suffixes x parameter maps (and shapes with arbitrary operators around and inside the binding) are compiled by the real compiler; a reference with lexical scoping evaluates the real parser's tree to a value-algebra term and z3 decides equality with the term of the emitted SQL for all rows; non-substituted contexts (quoted, qualified, function, table, alias) are checked structurally; removing unused bindings / lets after the query must leave the SQL byte-identical.",
        "Programs are enumerated by selectors (reported as such); the solver's quantifier is over rows and operator interpretations."),
 "C16":("The real run() of cmd/pql (harness injected into package main by overlay, bufio.Scanner interpreted from source) is executed on scripts assembled from statement templates (incl. comment openers and semicolons inside literals, trailing comments), separators and line layouts with selector-chosen read chunking and a read failure at an arbitrary offset; a model that calls the real pql.Compile per statement with the prelude of accepted lets gives the expected standard output, error count and exit status; the real multiReadCloser and an over-long line are exercised too.",
        "Scripts and environment choices are enumerated through selectors (reported as such); main/cobra/os plumbing is outside (not encodable). Two documented don't-cares."),
 "C14":("History: Compile/Parse/Scan are called repeatedly and interleaved on pairs of programs in one execution and results compared; the result of each program in the initial process state is compared with its result after any other program (every path starts from the initial state; confirmed in fresh native processes); the caller's parameter map is compared before/after; nil/zero/empty options compared; map iteration order is a symbolic permutation. Schedule: two Compile (and Parse/Scan) calls sharing their options run as interpreter threads, cold (first use in the process) and warm; the scheduler's choice before every visible operation (sync.Once/Mutex operations and accesses to shared locations that any explored execution writes) is an explicit decision, so all interleavings at that granularity are explored; conflicting accesses unordered by happens-before are data races; results must equal the sequential ones.",
        "Data races are confirmed natively by the Go race detector on a -race build of the same harness. More than two goroutines and the Go runtime itself are outside."),
 "C02":("Every well-typed pipeline within the bound is compiled by the real compiler (programs drawn by selectors, real lexer); the emitted SQL is parsed and evaluated by a reference SQL evaluator and the pipeline by a reference left-to-right interpreter on the same table whose cells are symbolic (NULL flag and small integer); every (program, data path) ends in solver-decided cell equalities, so duplicates, ties, NULLs and the empty table are all covered: same columns, stated names, rows and order.",
        "Reference evaluators (harness/h/pipeeval.go, sqleval.go) with ordered-list semantics are the oracle; ClickHouse itself is not executed."),
 "C03":("Join programs (all kinds, nine condition forms, eight left prefixes, right-hand pipelines, following operators, two and three joins in sequence and nested) are compiled by the real compiler and the emitted SQL is evaluated by the reference SQL evaluator against a reference join on symbolic tables; reading from the wrong subquery, a wrong join type, a lost DISTINCT or a mis-rewritten condition yields different rows for some table and is found as a counterexample.",
        "Same oracles as C02 plus refJoin."),
}
checks=[]
for p in props:
    if p['id'] in claimed:
        text,note=claimed[p['id']]
        checks.append({
          "property_id":p['id'],
          "quick_cmd":"./check %s quick"%p['id'],
          "thorough_cmd":"./check %s thorough"%p['id'],
          "evidence_file":"/verif/evidence/%s.json"%p['id'],
          "replay_cmd_template":"./check --replay {path}",
          "engine":"gosym",
          "level_claimed":{"category":"model_checking","text":"Bounded symbolic model checking of the real code (go/ssa executed symbolically, every feasible path within the input bound explored, assertions decided by z3 for all inputs of a path, counterexamples replayed natively). "+text,"design_ref":"DESIGN.md §5 "+p['id']},
          "level_note":"Trusted: go/ssa construction, the engine's interpreter and library models (listed in the evidence; sampled paths are re-run natively and compared on every run), z3. Holds only within the stated bounds. "+note,
          "technique":"symbolic execution of the real Go code over go/ssa + SMT (z3): bounded, solver-decided",
        })
na=[{"property_id":p['id'],"reason":"not claimed"} for p in props if p['id'] not in claimed]
m={"version":1,"setup_cmd":"./setup.sh",
 "hooks":{"guard":"verif","enable":"none needed: harnesses live in /verif/harness and reach the repository through a module replace (and go/packages overlays); the tag is reserved and unused","baseline_off_cmd":"cd /repo && go test -vet=off -count=1 ./...","source_commits":[],"add_only":True},
 "engines":[{"name":"gosym","path":"/verif/engine","serves_properties":sorted(claimed),"kind_free_text":"symbolic executor for Go SSA (go/ssa, x/tools v0.29.0) with SMT back end (z3 -in); decision-prefix replay exploration; native counterexample replay"}],
 "checks":checks,
 "notes":"See DESIGN.md. Exit codes: 0 held on everything explored; 1 natively reproduced violation (VIOLATION line); 2 run unusable (BROKEN line). Genuine defects repaired in /repo are listed as fixed in known_findings.json.",
 "not_applicable":na}
json.dump(m,open('/verif/MANIFEST.json','w'),indent=1)
print("claimed:",sorted(claimed))
