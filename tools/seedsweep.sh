#!/bin/bash
# tools/seedsweep.sh <list file> <log>: for each "<seed-id> <property>" line, apply the stored change to a
# scratch worktree of /repo (outside /repo and /verif), run "<property> quick" from a snapshot of /verif
# against it, and log exit status and violation count. Removes the worktree and snapshot at the end.
LIST=$1; LOG=$2
WT=/root/wt/seedwt; SNAP=/root/wt/vsnap_seeds
rm -rf $SNAP; rsync -a --exclude .git --exclude replays --exclude .build /verif/ $SNAP/; (cd $SNAP && ./setup.sh >/dev/null)
git -C /repo worktree remove --force $WT 2>/dev/null; git -C /repo worktree add --detach $WT HEAD >/dev/null 2>&1
: > $LOG
while read id prop; do
  [ -z "$id" ] && continue
  (cd $WT && git checkout -q -- . && git apply /verif/seeded/$id/patch.diff) || { echo "$id APPLY-FAILED" >> $LOG; continue; }
  out=$(VERIF_REPO=$WT $SNAP/check $prop quick 2>&1); rc=$?
  v=$(echo "$out" | grep -c '^VIOLATION')
  first=$(echo "$out" | grep -A1 -m1 '^VIOLATION' | sed -n '2p' | cut -c1-160)
  echo "$id [$prop quick] exit=$rc violations=$v $first" >> $LOG
done < $LIST
git -C /repo worktree remove --force $WT; rm -rf $SNAP
echo DONE >> $LOG
