#!/usr/bin/env python3
"""Refreshes the *[built — ...]* line under every ### Cxx heading of DESIGN.md from evidence/*.json."""
import json,re
p='/verif/DESIGN.md'
s=open(p).read()
files={"C01":"h/c01.go, valmap.go, sqlparse.go","C02":"h/c02.go, pipeeval.go, sqleval.go, rel.go","C03":"h/c03.go, pipeeval.go (refJoin), sqleval.go","C04":"h/c04.go, sqllex.go","C05":"h/c05.go, sqllex.go, sqlparse.go","C06":"h/c06.go, valmap.go","C07":"h/c07.go, refparse.go","C08":"h/c08.go, reprint.go","C09":"h/c09.go, reflex.go","C10":"h/c10.go, c10err.go, reprint.go","C11":"h/c11.go, reprint.go","C12":"h/c12.go","C13":"h/c13.go, c12.go","C14":"h/c14.go, engine/par.go","C15":"h/c15.go, reflex.go","C16":"cli/zz_verif_c16.go.txt (overlay into package main)"}
for cid in sorted(files):
    ev=json.load(open('/verif/evidence/%s.json'%cid))
    b=ev['coverage']['bounds']
    line="*[built — harness %s. Quick (%d paths, %.0f s on this machine): %s. Thorough: %s.]*\n\n"%(files[cid],ev['coverage']['states'],ev['wall_s'],b['quick'],b['thorough'])
    s=re.sub(r'(### %s [^\n]*\n\n)\*\[built — [^\n]*\]\*\n\n'%cid, r'\1', s)
    s=re.sub(r'(### %s [^\n]*\n\n)'%cid, lambda m: m.group(1)+line, s, count=1)
open(p,'w').write(s)
