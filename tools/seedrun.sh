#!/bin/bash
# tools/seedrun.sh <seed-id> "<prop> <tier>" ...  -- apply a stored seeded change to /repo, run checks, restore
ID=$1; shift
git -C /repo status --short | grep -q . && { echo "/repo dirty"; exit 2; }
git -C /repo apply /verif/seeded/$ID/patch.diff || { echo "patch does not apply"; exit 4; }
for c in "$@"; do
  out=$(cd /verif && ./check $c 2>&1); rc=$?
  v=$(echo "$out" | grep -c '^VIOLATION')
  b=$(echo "$out" | grep -m1 '^BROKEN' | cut -c1-200)
  first=$(echo "$out" | grep -A2 -m1 '^VIOLATION' | sed -n '2,3p' | tr '\n' ' ' | cut -c1-260)
  echo "  $ID check [$c] exit=$rc violations=$v $b $first"
done
git -C /repo checkout -q -- . ; git -C /repo status --short
