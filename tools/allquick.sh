#!/bin/bash
# usage: allquick.sh <repo dir> <log> [props...]  -- runs quick checks against another checkout
repo=$1; log=$2; shift 2
props=${@:-C09 C15 C07 C08 C10 C11 C12 C13 C01 C02 C03 C04 C05 C06 C14 C16}
: > $log
for p in $props; do
  s=$(date +%s)
  VERIF_REPO=$repo /verif/check $p quick > /tmp/allquick.$$.out 2>&1; rc=$?
  e=$(( $(date +%s) - s ))
  echo "== $p rc=$rc ${e}s" >> $log
  grep -E "VIOLATION|KNOWN-FINDING|BROKEN|ENGINE|unsupported|^property|disagree" /tmp/allquick.$$.out | cut -c1-400 | head -20 >> $log
done
rm -f /tmp/allquick.$$.out
echo DONE >> $log
