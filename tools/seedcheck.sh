#!/bin/bash
# tools/seedcheck.sh <worktree> <SEED_X> <seed-id> <property> [check args...]
# Verifies a seeded change in its scratch worktree (builds, suite green, demo fails with / passes
# without), stores it under /verif/seeded/<seed-id>/, then applies it to /repo, runs the given
# checks (default: "<property> quick") and restores /repo.
set -u
export GOFLAGS=-mod=mod GOPROXY=off GOSUMDB=off GOTOOLCHAIN=local
WT=$1; SEED=$2; ID=$3; PROP=$4; shift 4
CHECKS=("$@"); [ ${#CHECKS[@]} -eq 0 ] && CHECKS=("$PROP quick")
D=$WT/$SEED
pkgline=$(grep -m1 '^package ' $D/demo_test.go | awk '{print $2}')
case $pkgline in
  pql|pql_test) DEST=. ;;
  parser|parser_test) DEST=parser ;;
  main) DEST=cmd/pql ;;
  *) echo "unknown demo package $pkgline"; exit 2 ;;
esac
cd $WT && git checkout -q -- . && git status --short | grep -v '^??' && { echo "worktree dirty"; exit 2; }
RACE=""; grep -qi -- "-race" $D/README.md && RACE="-race"
run_demo() { grep -v "^//go:build\|^// +build" $D/demo_test.go > $WT/$DEST/zz_seed_demo_test.go; (cd $WT && CGO_ENABLED=1 go test $RACE -vet=off -count=1 ./$DEST -run 'Seed|Demo|Test' 2>&1 | tail -3); local rc=${PIPESTATUS[0]}; rm -f $WT/$DEST/zz_seed_demo_test.go; }
# clean: demo must pass
grep -v "^//go:build\|^// +build" $D/demo_test.go > $WT/$DEST/zz_seed_demo_test.go
(cd $WT && CGO_ENABLED=1 go test $RACE -vet=off -count=1 -run "Seed|Demo" ./$DEST >/tmp/seed_clean.log 2>&1); CLEAN=$?
rm -f $WT/$DEST/zz_seed_demo_test.go
# with change: build + suite (without demo) green, demo fails
(cd $WT && git apply $D/patch.diff) || { echo "patch does not apply in worktree"; exit 2; }
(cd $WT && go build ./... >/tmp/seed_build.log 2>&1); BUILD=$?
(cd $WT && go test -vet=off -count=1 . ./parser ./cmd/pql >/tmp/seed_suite.log 2>&1); SUITE=$?
grep -v "^//go:build\|^// +build" $D/demo_test.go > $WT/$DEST/zz_seed_demo_test.go
(cd $WT && CGO_ENABLED=1 go test $RACE -vet=off -count=1 -run "Seed|Demo" ./$DEST >/tmp/seed_demo.log 2>&1); DEMO=$?
rm -f $WT/$DEST/zz_seed_demo_test.go
(cd $WT && git checkout -q -- .)
echo "seed $ID: build=$BUILD suite=$SUITE demo_with_change=$DEMO (want !=0) demo_clean=$CLEAN (want 0)"
if [ $BUILD -ne 0 ] || [ $SUITE -ne 0 ] || [ $DEMO -eq 0 ] || [ $CLEAN -ne 0 ]; then echo "seed $ID REJECTED"; tail -5 /tmp/seed_suite.log /tmp/seed_demo.log /tmp/seed_clean.log; exit 3; fi
mkdir -p /verif/seeded/$ID && cp $D/patch.diff /verif/seeded/$ID/patch.diff && cp $D/demo_test.go /verif/seeded/$ID/demo_test.go.txt && cp $D/README.md /verif/seeded/$ID/README.md
# run the checks against /repo with the change applied
git -C /repo status --short | grep -q . && { echo "/repo dirty"; exit 2; }
git -C /repo apply $D/patch.diff || { echo "patch does not apply to /repo HEAD"; exit 4; }
RESULTS=""
for c in "${CHECKS[@]}"; do
  out=$(cd /verif && ./check $c 2>&1); rc=$?
  v=$(echo "$out" | grep -c '^VIOLATION')
  b=$(echo "$out" | grep -m1 '^BROKEN' | cut -c1-160)
  first=$(echo "$out" | grep -A2 -m1 '^VIOLATION' | sed -n '2,3p' | tr '\n' ' ' | cut -c1-220)
  echo "  check [$c] exit=$rc violations=$v $b $first"
  RESULTS="$RESULTS|$c:exit=$rc:violations=$v"
done
git -C /repo checkout -q -- . ; git -C /repo status --short
echo "$RESULTS" > /verif/seeded/$ID/last_result.txt
