#!/bin/sh
# Builds the symbolic-execution engine from files on disk only (offline).
set -e
cd "$(dirname "$0")"
export GOFLAGS=-mod=mod GOPROXY=off GOSUMDB=off GOTOOLCHAIN=local CGO_ENABLED=0
mkdir -p .build evidence replays
(cd engine && go build -o ../.build/gosym .)
# the harness module resolves the repository through a replace directive; its go.sum is the repository's
cp /repo/go.sum harness/go.sum 2>/dev/null || true
(cd harness && go build ./... )
echo "setup ok: $(.build/gosym version 2>/dev/null || echo gosym built)"
