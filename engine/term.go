package main

// Hash-consed SMT terms: Bool (bits==0), bit-vectors (bits>0) and the
// uninterpreted value sort Val (bits==sortVal) used by the SQL value algebra.

import (
	"fmt"
	"math/bits"
	"strings"
)

const sortVal = -2

type Op uint8

const (
	OpVar Op = iota
	OpConst
	OpNot
	OpAnd
	OpOr
	OpIte
	OpEq
	OpAdd
	OpSub
	OpMul
	OpUDiv
	OpURem
	OpSDiv
	OpSRem
	OpBAnd
	OpBOr
	OpBXor
	OpShl
	OpLShr
	OpAShr
	OpULt
	OpULe
	OpSLt
	OpSLe
	OpNeg
	OpBNot
	OpZExt    // val = extra bits
	OpSExt    // val = extra bits
	OpExtract // val = hi<<8|lo
	OpConcat
	OpApp // uninterpreted function application; name = function symbol
)

var opNames = [...]string{
	OpNot: "not", OpAnd: "and", OpOr: "or", OpIte: "ite", OpEq: "=",
	OpAdd: "bvadd", OpSub: "bvsub", OpMul: "bvmul", OpUDiv: "bvudiv", OpURem: "bvurem",
	OpSDiv: "bvsdiv", OpSRem: "bvsrem", OpBAnd: "bvand", OpBOr: "bvor", OpBXor: "bvxor",
	OpShl: "bvshl", OpLShr: "bvlshr", OpAShr: "bvashr", OpULt: "bvult", OpULe: "bvule",
	OpSLt: "bvslt", OpSLe: "bvsle", OpNeg: "bvneg", OpBNot: "bvnot", OpConcat: "concat",
}

type Term struct {
	op    Op
	bits  int // 0 Bool, >0 BV width, sortVal
	args  []*Term
	val   uint64
	name  string
	id    int
	vars  varset // input variables occurring
	nvars int    // number of distinct input variables
}

type varset []uint64

func (a varset) union(b varset) varset {
	if len(b) == 0 {
		return a
	}
	if len(a) == 0 {
		return b
	}
	n := len(a)
	if len(b) > n {
		n = len(b)
	}
	r := make(varset, n)
	copy(r, a)
	for i, w := range b {
		r[i] |= w
	}
	return r
}
func (a varset) intersects(b varset) bool {
	n := len(a)
	if len(b) < n {
		n = len(b)
	}
	for i := 0; i < n; i++ {
		if a[i]&b[i] != 0 {
			return true
		}
	}
	return false
}
func (a varset) count() int {
	n := 0
	for _, w := range a {
		n += bits.OnesCount64(w)
	}
	return n
}
func (a varset) empty() bool {
	for _, w := range a {
		if w != 0 {
			return false
		}
	}
	return true
}
func (a varset) list() []int {
	var r []int
	for i, w := range a {
		for w != 0 {
			b := bits.TrailingZeros64(w)
			r = append(r, i*64+b)
			w &^= 1 << uint(b)
		}
	}
	return r
}

type termKey struct {
	op      Op
	bits    int
	a, b, c int
	val     uint64
	name    string
}

// TermStore is a per-worker hash-consing table.
type TermStore struct {
	tab     map[termKey]*Term
	nkey    map[string]*Term // n-ary app terms
	all     []*Term
	vars    []*Term // input variables by var index
	varIdx  map[string]int
	tt, ff  *Term
	ufs     map[string]ufSig // declared uninterpreted functions
	ufList  []string
	tabMemo map[*Term]*[256]uint64 // truth/value tables of single-byte-variable terms
	Fast    FastStats
}

type FastStats struct{ Decided, Tables int }

type ufSig struct {
	nargs int
	ret   int // sort of result (0 bool, sortVal)
}

func NewTermStore() *TermStore {
	ts := &TermStore{tab: map[termKey]*Term{}, nkey: map[string]*Term{}, varIdx: map[string]int{}, ufs: map[string]ufSig{}, tabMemo: map[*Term]*[256]uint64{}}
	ts.tt = ts.mk(OpConst, 0, 1, "")
	ts.ff = ts.mk(OpConst, 0, 0, "")
	return ts
}

func (ts *TermStore) mk(op Op, nbits int, val uint64, name string, args ...*Term) *Term {
	if op == OpApp || len(args) > 3 {
		var sb strings.Builder
		fmt.Fprintf(&sb, "%d|%d|%d|%s", op, nbits, val, name)
		for _, a := range args {
			fmt.Fprintf(&sb, "|%d", a.id)
		}
		k := sb.String()
		if t, ok := ts.nkey[k]; ok {
			return t
		}
		t := &Term{op: op, bits: nbits, args: args, val: val, name: name, id: len(ts.all)}
		for _, a := range args {
			t.vars = t.vars.union(a.vars)
		}
		t.nvars = t.vars.count()
		ts.all = append(ts.all, t)
		ts.nkey[k] = t
		return t
	}
	k := termKey{op: op, bits: nbits, val: val, name: name, a: -1, b: -1, c: -1}
	if len(args) > 0 {
		k.a = args[0].id
	}
	if len(args) > 1 {
		k.b = args[1].id
	}
	if len(args) > 2 {
		k.c = args[2].id
	}
	if t, ok := ts.tab[k]; ok {
		return t
	}
	t := &Term{op: op, bits: nbits, args: args, val: val, name: name, id: len(ts.all)}
	for _, a := range args {
		t.vars = t.vars.union(a.vars)
	}
	t.nvars = t.vars.count()
	ts.all = append(ts.all, t)
	ts.tab[k] = t
	return t
}

// Var returns the input variable with the given name, creating it on first use.
func (ts *TermStore) Var(name string, nbits int) *Term {
	if i, ok := ts.varIdx[name]; ok {
		v := ts.vars[i]
		if v.bits != nbits {
			panic(fmt.Sprintf("variable %s redeclared with different sort", name))
		}
		return v
	}
	t := ts.mk(OpVar, nbits, 0, name)
	i := len(ts.vars)
	ts.varIdx[name] = i
	ts.vars = append(ts.vars, t)
	vs := make(varset, i/64+1)
	vs[i/64] |= 1 << uint(i%64)
	t.vars = vs
	t.nvars = 1
	return t
}

func mask(nbits int) uint64 {
	if nbits >= 64 {
		return ^uint64(0)
	}
	return (uint64(1) << uint(nbits)) - 1
}

func (ts *TermStore) Const(v uint64, nbits int) *Term {
	if nbits == 0 {
		if v != 0 {
			return ts.tt
		}
		return ts.ff
	}
	return ts.mk(OpConst, nbits, v&mask(nbits), "")
}
func (ts *TermStore) Bool(b bool) *Term {
	if b {
		return ts.tt
	}
	return ts.ff
}

func (t *Term) isConst() bool { return t.op == OpConst }
func (t *Term) isTrue() bool  { return t.op == OpConst && t.bits == 0 && t.val == 1 }
func (t *Term) isFalse() bool { return t.op == OpConst && t.bits == 0 && t.val == 0 }

func sext(v uint64, nbits int) int64 {
	if nbits >= 64 {
		return int64(v)
	}
	s := uint(64 - nbits)
	return int64(v<<s) >> s
}

func (ts *TermStore) Not(a *Term) *Term {
	if a.isConst() {
		return ts.Bool(a.val == 0)
	}
	if a.op == OpNot {
		return a.args[0]
	}
	return ts.mk(OpNot, 0, 0, "", a)
}
func (ts *TermStore) And(a, b *Term) *Term {
	if a.isFalse() || b.isFalse() {
		return ts.ff
	}
	if a.isTrue() {
		return b
	}
	if b.isTrue() {
		return a
	}
	if a == b {
		return a
	}
	if a.id > b.id {
		a, b = b, a
	}
	return ts.mk(OpAnd, 0, 0, "", a, b)
}
func (ts *TermStore) Or(a, b *Term) *Term {
	if a.isTrue() || b.isTrue() {
		return ts.tt
	}
	if a.isFalse() {
		return b
	}
	if b.isFalse() {
		return a
	}
	if a == b {
		return a
	}
	if a.id > b.id {
		a, b = b, a
	}
	return ts.mk(OpOr, 0, 0, "", a, b)
}
func (ts *TermStore) Ite(c, a, b *Term) *Term {
	if c.isTrue() {
		return a
	}
	if c.isFalse() {
		return b
	}
	if a == b {
		return a
	}
	if a.bits != b.bits {
		panic(fmt.Sprintf("ite sort mismatch %d %d", a.bits, b.bits))
	}
	if a.bits == 0 {
		if a.isTrue() && b.isFalse() {
			return c
		}
		if a.isFalse() && b.isTrue() {
			return ts.Not(c)
		}
		if a.isTrue() {
			return ts.Or(c, b)
		}
		if b.isFalse() {
			return ts.And(c, a)
		}
		if a.isFalse() {
			return ts.And(ts.Not(c), b)
		}
		if b.isTrue() {
			return ts.Or(ts.Not(c), a)
		}
	}
	return ts.mk(OpIte, a.bits, 0, "", c, a, b)
}
func (ts *TermStore) Eq(a, b *Term) *Term {
	if a.bits != b.bits {
		panic(fmt.Sprintf("eq sort mismatch %d %d (%s vs %s)", a.bits, b.bits, ts.Show(a), ts.Show(b)))
	}
	if a == b {
		return ts.tt
	}
	if a.isConst() && b.isConst() {
		return ts.Bool(a.val == b.val)
	}
	if a.bits == 0 {
		if a.isConst() {
			a, b = b, a
		}
		if b.isTrue() {
			return a
		}
		if b.isFalse() {
			return ts.Not(a)
		}
	}
	// zext(x) == const  =>  x == const (when it fits) else false
	if a.isConst() {
		a, b = b, a
	}
	if b.isConst() && a.op == OpZExt {
		inner := a.args[0]
		if b.val&^mask(inner.bits) != 0 {
			return ts.ff
		}
		return ts.Eq(inner, ts.Const(b.val, inner.bits))
	}
	if b.isConst() && a.op == OpIte && (a.args[1].isConst() || a.args[2].isConst()) {
		// push the comparison into ite chains with constant leaves
		return ts.Ite(a.args[0], ts.Eq(a.args[1], b), ts.Eq(a.args[2], b))
	}
	if a.id > b.id {
		a, b = b, a
	}
	return ts.mk(OpEq, 0, 0, "", a, b)
}

func (ts *TermStore) Bin(op Op, a, b *Term) *Term {
	if a.bits != b.bits || a.bits <= 0 {
		panic(fmt.Sprintf("bin %s sort mismatch %d %d", opNames[op], a.bits, b.bits))
	}
	n := a.bits
	cmp := op == OpULt || op == OpULe || op == OpSLt || op == OpSLe
	if a.isConst() && b.isConst() {
		x, y := a.val, b.val
		sx, sy := sext(x, n), sext(y, n)
		switch op {
		case OpAdd:
			return ts.Const(x+y, n)
		case OpSub:
			return ts.Const(x-y, n)
		case OpMul:
			return ts.Const(x*y, n)
		case OpUDiv:
			if y == 0 {
				return ts.Const(mask(n), n)
			}
			return ts.Const(x/y, n)
		case OpURem:
			if y == 0 {
				return ts.Const(x, n)
			}
			return ts.Const(x%y, n)
		case OpSDiv:
			if y != 0 && !(sy == -1 && n == 64 && sx == -1<<63) {
				return ts.Const(uint64(sx/sy), n)
			}
		case OpSRem:
			if y != 0 && sy != -1 {
				return ts.Const(uint64(sx%sy), n)
			}
			if sy == -1 {
				return ts.Const(0, n)
			}
		case OpBAnd:
			return ts.Const(x&y, n)
		case OpBOr:
			return ts.Const(x|y, n)
		case OpBXor:
			return ts.Const(x^y, n)
		case OpShl:
			if y >= uint64(n) {
				return ts.Const(0, n)
			}
			return ts.Const(x<<y, n)
		case OpLShr:
			if y >= uint64(n) {
				return ts.Const(0, n)
			}
			return ts.Const(x>>y, n)
		case OpAShr:
			if y >= uint64(n) {
				y = uint64(n) - 1
			}
			return ts.Const(uint64(sx>>y), n)
		case OpULt:
			return ts.Bool(x < y)
		case OpULe:
			return ts.Bool(x <= y)
		case OpSLt:
			return ts.Bool(sx < sy)
		case OpSLe:
			return ts.Bool(sx <= sy)
		}
	}
	if cmp {
		if b.isConst() && a.op == OpIte && (a.args[1].isConst() || a.args[2].isConst()) {
			return ts.Ite(a.args[0], ts.Bin(op, a.args[1], b), ts.Bin(op, a.args[2], b))
		}
		if a.isConst() && b.op == OpIte && (b.args[1].isConst() || b.args[2].isConst()) {
			return ts.Ite(b.args[0], ts.Bin(op, a, b.args[1]), ts.Bin(op, a, b.args[2]))
		}
	}
	// comparisons of zero-extended narrow values with constants
	if cmp && (op == OpULt || op == OpULe || op == OpSLt || op == OpSLe) {
		if a.op == OpZExt && b.isConst() {
			in := a.args[0]
			if n > in.bits && (op == OpULt || op == OpULe || sext(b.val, n) >= 0) {
				if b.val > mask(in.bits) {
					return ts.tt
				}
				uop := OpULt
				if op == OpULe || op == OpSLe {
					uop = OpULe
				}
				return ts.Bin(uop, in, ts.Const(b.val, in.bits))
			}
			if n > in.bits && sext(b.val, n) < 0 && (op == OpSLt || op == OpSLe) {
				return ts.ff
			}
		}
		if b.op == OpZExt && a.isConst() {
			in := b.args[0]
			if n > in.bits && (op == OpULt || op == OpULe || sext(a.val, n) >= 0) {
				if a.val > mask(in.bits) {
					return ts.ff
				}
				uop := OpULt
				if op == OpULe || op == OpSLe {
					uop = OpULe
				}
				return ts.Bin(uop, ts.Const(a.val, in.bits), in)
			}
			if n > in.bits && sext(a.val, n) < 0 && (op == OpSLt || op == OpSLe) {
				return ts.tt
			}
		}
		if a == b {
			return ts.Bool(op == OpULe || op == OpSLe)
		}
		if op == OpULe && ((a.isConst() && a.val == 0) || (b.isConst() && b.val == mask(n))) {
			return ts.tt
		}
		if op == OpULt && ((b.isConst() && b.val == 0) || (a.isConst() && a.val == mask(n))) {
			return ts.ff
		}
	}
	switch op {
	case OpAdd, OpBOr, OpBXor:
		if a.isConst() && a.val == 0 {
			return b
		}
		if b.isConst() && b.val == 0 {
			return a
		}
	case OpSub, OpShl, OpLShr, OpAShr:
		if b.isConst() && b.val == 0 {
			return a
		}
	case OpMul:
		if a.isConst() && a.val == 1 {
			return b
		}
		if b.isConst() && b.val == 1 {
			return a
		}
	case OpBAnd:
		if a.isConst() && a.val == mask(n) {
			return b
		}
		if b.isConst() && b.val == mask(n) {
			return a
		}
		if (a.isConst() && a.val == 0) || (b.isConst() && b.val == 0) {
			return ts.Const(0, n)
		}
	}
	rb := n
	if cmp {
		rb = 0
	}
	return ts.mk(op, rb, 0, "", a, b)
}

func (ts *TermStore) Neg(a *Term) *Term {
	if a.isConst() {
		return ts.Const(-a.val, a.bits)
	}
	return ts.mk(OpNeg, a.bits, 0, "", a)
}
func (ts *TermStore) BNot(a *Term) *Term {
	if a.isConst() {
		return ts.Const(^a.val, a.bits)
	}
	return ts.mk(OpBNot, a.bits, 0, "", a)
}

// Resize converts a BV term to width n, sign- or zero-extending or truncating.
func (ts *TermStore) Resize(a *Term, n int, signed bool) *Term {
	if a.bits == n {
		return a
	}
	if a.bits <= 0 {
		panic("resize of non-bv")
	}
	if a.isConst() {
		if n > a.bits && signed {
			return ts.Const(uint64(sext(a.val, a.bits)), n)
		}
		return ts.Const(a.val, n)
	}
	if n < a.bits {
		if (a.op == OpZExt || a.op == OpSExt) && a.args[0].bits <= n {
			return ts.Resize(a.args[0], n, a.op == OpSExt)
		}
		return ts.mk(OpExtract, n, uint64(n-1)<<8, "", a)
	}
	if signed {
		return ts.mk(OpSExt, n, uint64(n-a.bits), "", a)
	}
	if a.op == OpZExt {
		return ts.Resize(a.args[0], n, false)
	}
	return ts.mk(OpZExt, n, uint64(n-a.bits), "", a)
}

// Subst rebuilds t with variables replaced by constants (fixed: var index -> value).
func (ts *TermStore) Subst(t *Term, fixed map[int]uint64, fixedSet varset, memo map[*Term]*Term) *Term {
	if !t.vars.intersects(fixedSet) {
		return t
	}
	if r, ok := memo[t]; ok {
		return r
	}
	var r *Term
	switch t.op {
	case OpVar:
		r = ts.Const(fixed[ts.varIdx[t.name]], t.bits)
	case OpConst:
		r = t
	default:
		args := make([]*Term, len(t.args))
		for i, a := range t.args {
			args[i] = ts.Subst(a, fixed, fixedSet, memo)
		}
		r = ts.rebuild(t, args)
	}
	memo[t] = r
	return r
}

// rebuild re-applies t's operator to new arguments through the simplifying constructors.
func (ts *TermStore) rebuild(t *Term, a []*Term) *Term {
	switch t.op {
	case OpNot:
		return ts.Not(a[0])
	case OpAnd:
		return ts.And(a[0], a[1])
	case OpOr:
		return ts.Or(a[0], a[1])
	case OpIte:
		return ts.Ite(a[0], a[1], a[2])
	case OpEq:
		return ts.Eq(a[0], a[1])
	case OpNeg:
		return ts.Neg(a[0])
	case OpBNot:
		return ts.BNot(a[0])
	case OpZExt:
		return ts.Resize(a[0], t.bits, false)
	case OpSExt:
		return ts.Resize(a[0], t.bits, true)
	case OpExtract:
		hi, lo := int(t.val>>8), int(t.val&0xff)
		if a[0].isConst() {
			return ts.Const(a[0].val>>uint(lo), hi-lo+1)
		}
		return ts.mk(OpExtract, t.bits, t.val, "", a[0])
	case OpConcat:
		if a[0].isConst() && a[1].isConst() {
			return ts.Const(a[0].val<<uint(a[1].bits)|a[1].val, t.bits)
		}
		return ts.mk(OpConcat, t.bits, 0, "", a...)
	case OpApp:
		return ts.mk(OpApp, t.bits, 0, t.name, a...)
	}
	return ts.Bin(t.op, a[0], a[1])
}

// DeclareUF registers an uninterpreted function symbol.
func (ts *TermStore) DeclareUF(name string, nargs, ret int) {
	if s, ok := ts.ufs[name]; ok {
		if s.nargs != nargs || s.ret != ret {
			panic("uf redeclared: " + name)
		}
		return
	}
	ts.ufs[name] = ufSig{nargs, ret}
	ts.ufList = append(ts.ufList, name)
}

// App applies an uninterpreted function (all arguments of sort Val).
func (ts *TermStore) App(name string, ret int, args ...*Term) *Term {
	ts.DeclareUF(name, len(args), ret)
	t := ts.mk(OpApp, ret, 0, name, args...)
	return t
}

func sortName(nbits int) string {
	switch {
	case nbits == 0:
		return "Bool"
	case nbits == sortVal:
		return "Val"
	default:
		return fmt.Sprintf("(_ BitVec %d)", nbits)
	}
}

// ref is how a term is referred to inside solver text.
func (t *Term) ref() string {
	switch t.op {
	case OpVar:
		return t.name
	case OpConst:
		if t.bits == 0 {
			if t.val != 0 {
				return "true"
			}
			return "false"
		}
		if t.bits%4 == 0 {
			return fmt.Sprintf("#x%0*x", t.bits/4, t.val)
		}
		return fmt.Sprintf("#b%0*b", t.bits, t.val)
	}
	return fmt.Sprintf("t%d", t.id)
}

// body is the defining expression in terms of argument refs.
func (t *Term) body() string {
	var sb strings.Builder
	switch t.op {
	case OpZExt:
		fmt.Fprintf(&sb, "((_ zero_extend %d) %s)", t.val, t.args[0].ref())
	case OpSExt:
		fmt.Fprintf(&sb, "((_ sign_extend %d) %s)", t.val, t.args[0].ref())
	case OpExtract:
		fmt.Fprintf(&sb, "((_ extract %d %d) %s)", t.val>>8, t.val&0xff, t.args[0].ref())
	case OpApp:
		if len(t.args) == 0 {
			return t.name
		}
		sb.WriteString("(" + t.name)
		for _, a := range t.args {
			sb.WriteString(" " + a.ref())
		}
		sb.WriteString(")")
	default:
		sb.WriteString("(" + opNames[t.op])
		for _, a := range t.args {
			sb.WriteString(" " + a.ref())
		}
		sb.WriteString(")")
	}
	return sb.String()
}

// Show prints a term fully expanded (for diagnostics and samples; bounded).
func (ts *TermStore) Show(t *Term) string {
	var sb strings.Builder
	var rec func(t *Term, depth int)
	rec = func(t *Term, depth int) {
		if sb.Len() > 600 {
			sb.WriteString("…")
			return
		}
		switch t.op {
		case OpVar, OpConst:
			sb.WriteString(t.ref())
			return
		}
		if depth > 12 {
			sb.WriteString("…")
			return
		}
		switch t.op {
		case OpZExt, OpSExt:
			rec(t.args[0], depth+1)
			return
		case OpExtract:
			sb.WriteString("lo" + fmt.Sprint(t.val>>8+1) + "(")
			rec(t.args[0], depth+1)
			sb.WriteString(")")
			return
		case OpApp:
			sb.WriteString(t.name)
			if len(t.args) == 0 {
				return
			}
		default:
			sb.WriteString(opNames[t.op])
		}
		sb.WriteString("(")
		for i, a := range t.args {
			if i > 0 {
				sb.WriteString(",")
			}
			rec(a, depth+1)
		}
		sb.WriteString(")")
	}
	rec(t, 0)
	return sb.String()
}

// evalOp applies t's operator to concrete argument values.
func (ts *TermStore) evalOp(t *Term, a []uint64) (uint64, bool) {
	switch t.op {
	case OpConst:
		return t.val, true
	case OpNot:
		return 1 - a[0], true
	case OpAnd:
		return a[0] & a[1], true
	case OpOr:
		return a[0] | a[1], true
	case OpIte:
		if a[0] != 0 {
			return a[1], true
		}
		return a[2], true
	case OpEq:
		if a[0] == a[1] {
			return 1, true
		}
		return 0, true
	case OpNeg:
		return (-a[0]) & mask(t.bits), true
	case OpBNot:
		return (^a[0]) & mask(t.bits), true
	case OpZExt:
		return a[0], true
	case OpSExt:
		return uint64(sext(a[0], t.args[0].bits)) & mask(t.bits), true
	case OpExtract:
		return (a[0] >> (t.val & 0xff)) & mask(t.bits), true
	case OpConcat:
		return (a[0]<<uint(t.args[1].bits) | a[1]) & mask(t.bits), true
	case OpApp, OpVar:
		return 0, false
	}
	n := t.args[0].bits
	x, y := a[0], a[1]
	sx, sy := sext(x, n), sext(y, n)
	var r uint64
	switch t.op {
	case OpAdd:
		r = x + y
	case OpSub:
		r = x - y
	case OpMul:
		r = x * y
	case OpUDiv:
		if y == 0 {
			r = mask(n)
		} else {
			r = x / y
		}
	case OpURem:
		if y == 0 {
			r = x
		} else {
			r = x % y
		}
	case OpSDiv:
		switch {
		case y == 0:
			if sx >= 0 {
				r = mask(n)
			} else {
				r = 1
			}
		case sy == -1:
			r = uint64(-sx)
		default:
			r = uint64(sx / sy)
		}
	case OpSRem:
		switch {
		case y == 0:
			r = x
		case sy == -1:
			r = 0
		default:
			r = uint64(sx % sy)
		}
	case OpBAnd:
		r = x & y
	case OpBOr:
		r = x | y
	case OpBXor:
		r = x ^ y
	case OpShl:
		if y >= uint64(n) {
			r = 0
		} else {
			r = x << y
		}
	case OpLShr:
		if y >= uint64(n) {
			r = 0
		} else {
			r = x >> y
		}
	case OpAShr:
		if y >= uint64(n) {
			y = uint64(n) - 1
		}
		r = uint64(sx >> y)
	case OpULt:
		return b2u(x < y), true
	case OpULe:
		return b2u(x <= y), true
	case OpSLt:
		return b2u(sx < sy), true
	case OpSLe:
		return b2u(sx <= sy), true
	default:
		return 0, false
	}
	return r & mask(n), true
}

func b2u(b bool) uint64 {
	if b {
		return 1
	}
	return 0
}

// Eval evaluates a term under a model (values of input variables by name).
// Terms with uninterpreted functions are not supported (ok=false).
func (ts *TermStore) Eval(t *Term, model map[string]uint64) (uint64, bool) {
	memo := map[*Term]uint64{}
	ok := true
	var ev func(t *Term) uint64
	ev = func(t *Term) uint64 {
		if t.op == OpConst {
			return t.val
		}
		if t.op == OpVar {
			return model[t.name] & mask(max(t.bits, 1))
		}
		if v, done := memo[t]; done {
			return v
		}
		var buf [3]uint64
		a := buf[:0]
		for _, x := range t.args {
			a = append(a, ev(x))
		}
		r, good := ts.evalOp(t, a)
		if !good {
			ok = false
		}
		memo[t] = r
		return r
	}
	v := ev(t)
	return v, ok
}

// Table returns the value of a single-variable term for every value of its variable
// (domain size 2^bits, bits <= 8; Bool variables have domain {0,1}).
func (ts *TermStore) Table(t *Term) (*[256]uint64, bool) {
	if tab, ok := ts.tabMemo[t]; ok {
		return tab, tab != nil
	}
	var tab *[256]uint64
	switch t.op {
	case OpVar:
		tab = new([256]uint64)
		for i := range tab {
			tab[i] = uint64(i) & mask(max(t.bits, 1))
		}
	case OpConst:
		tab = new([256]uint64)
		for i := range tab {
			tab[i] = t.val
		}
	default:
		argT := make([]*[256]uint64, len(t.args))
		good := true
		for i, a := range t.args {
			at, ok := ts.Table(a)
			if !ok {
				good = false
				break
			}
			argT[i] = at
		}
		if good {
			tab = new([256]uint64)
			var buf [3]uint64
			for v := 0; v < 256 && good; v++ {
				a := buf[:0]
				for i := range t.args {
					a = append(a, argT[i][v])
				}
				if len(t.args) > 3 {
					good = false
					break
				}
				r, ok := ts.evalOp(t, a)
				if !ok {
					good = false
				}
				tab[v] = r
			}
			if !good {
				tab = nil
			}
		}
	}
	ts.tabMemo[t] = tab
	ts.Fast.Tables++
	return tab, tab != nil
}

// TruthBits packs the table of a Bool term into a 256-bit set.
func (ts *TermStore) TruthBits(t *Term) ([4]uint64, bool) {
	var r [4]uint64
	tab, ok := ts.Table(t)
	if !ok {
		return r, false
	}
	for v := 0; v < 256; v++ {
		if tab[v] != 0 {
			r[v/64] |= 1 << uint(v%64)
		}
	}
	return r, true
}
