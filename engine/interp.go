package main

// SSA interpreter with symbolic scalars.

import (
	"fmt"
	"go/constant"
	"go/token"
	"go/types"
	"os"
	"strings"
	"unsafe"

	"golang.org/x/tools/go/ssa"
)

var debugInstr = os.Getenv("GOSYM_DEBUG") != ""

// goPanic is a Go-level panic raised by the interpreted program.
type goPanic struct {
	val   Value // the panic value as an interface value (Iface) or runtime error text
	rtErr string
	where string
	text  string // rendered message when the value is an error or string
}

func (p *goPanic) String() string {
	if p.rtErr != "" {
		return "runtime error: " + p.rtErr
	}
	if p.text != "" {
		return "panic: " + p.text
	}
	return "panic: " + showVal(p.val)
}

// pathEnd aborts the current path (not a Go panic of the interpreted program).
type pathEnd struct {
	kind string // "assume", "budget", "unsupported", "done", "infeasible", "solver"
	msg  string
}

type deferred struct {
	fn   Value
	args []Value
	inst *ssa.Defer
}

type frame struct {
	ex        *Exec
	fn        *ssa.Function
	caller    *frame
	env       []Value
	meta      *fnMeta
	block     *ssa.BasicBlock
	prev      *ssa.BasicBlock
	defers    []deferred
	result    Value
	panicking *goPanic
	recovered bool
}

// fnMeta numbers the SSA values of a function so that the environment is a slice.
// Lookups go through an open-addressing table keyed by the value's address
// (Go's collector does not move heap objects); scalar constants are cached there too.
type fnMeta struct {
	tab  []slotEntry // power-of-two size
	mask uintptr
	n    int
	pure int8 // 0 unknown, 1 pure acyclic, -1 not
}

type slotEntry struct {
	key   uintptr
	idx   int32 // >= 0: environment slot; -1: cached constant
	konst Value
}

func valuePtr(v ssa.Value) uintptr {
	return (*[2]uintptr)(unsafe.Pointer(&v))[1]
}

func (m *fnMeta) find(k uintptr) *slotEntry {
	i := (k >> 4 * 0x9E3779B97F4A7C15 >> 20) & m.mask
	for {
		e := &m.tab[i]
		if e.key == k {
			return e
		}
		if e.key == 0 {
			return nil
		}
		i = (i + 1) & m.mask
	}
}

func (m *fnMeta) insert(k uintptr, idx int32, konst Value) {
	i := (k >> 4 * 0x9E3779B97F4A7C15 >> 20) & m.mask
	for m.tab[i].key != 0 {
		if m.tab[i].key == k {
			return
		}
		i = (i + 1) & m.mask
	}
	m.tab[i] = slotEntry{key: k, idx: idx, konst: konst}
}

func (m *fnMeta) slot(v ssa.Value) int {
	if e := m.find(valuePtr(v)); e != nil && e.idx >= 0 {
		return int(e.idx)
	}
	panic(fmt.Sprintf("no environment slot for %T %v", v, v.Name()))
}

func (e *Engine) metaOf(fn *ssa.Function) *fnMeta {
	if m, ok := e.metas.Load(fn); ok {
		return m.(*fnMeta)
	}
	var vals []ssa.Value
	var consts []*ssa.Const
	seenConst := map[*ssa.Const]bool{}
	for _, p := range fn.Params {
		vals = append(vals, p)
	}
	for _, fv := range fn.FreeVars {
		vals = append(vals, fv)
	}
	var ops []*ssa.Value
	for _, b := range fn.Blocks {
		for _, ins := range b.Instrs {
			if v, ok := ins.(ssa.Value); ok {
				vals = append(vals, v)
			}
			ops = ins.Operands(ops[:0])
			for _, op := range ops {
				if op == nil || *op == nil {
					continue
				}
				if c, ok := (*op).(*ssa.Const); ok && !seenConst[c] {
					seenConst[c] = true
					consts = append(consts, c)
				}
			}
		}
	}
	size := 8
	for size < 2*(len(vals)+len(consts))+2 {
		size *= 2
	}
	m := &fnMeta{tab: make([]slotEntry, size), mask: uintptr(size - 1)}
	for _, v := range vals {
		m.insert(valuePtr(v), int32(m.n), nil)
		m.n++
	}
	for _, c := range consts {
		// only immutable scalar constants are cached
		switch kv := constValueOf(c).(type) {
		case bool, int64, float64, string:
			m.insert(valuePtr(c), -1, kv)
		}
	}
	actual, _ := e.metas.LoadOrStore(fn, m)
	return actual.(*fnMeta)
}

func (fr *frame) get(v ssa.Value) Value {
	if e := fr.meta.find(valuePtr(v)); e != nil {
		if e.idx >= 0 {
			return fr.env[e.idx]
		}
		return e.konst
	}
	switch v := v.(type) {
	case *ssa.Const:
		return fr.ex.constValue(v)
	case *ssa.Global:
		return fr.ex.globalAddr(v)
	case *ssa.Function:
		return v
	case *ssa.Builtin:
		return v
	}
	panic(fmt.Sprintf("get: no binding for %T %v in %s", v, v.Name(), fr.fn))
}

// getOpt is get for an optional operand (nil means the constant 0).
func (fr *frame) getOpt(v ssa.Value) Value {
	if v == nil {
		return int64(0)
	}
	return fr.get(v)
}

func (fr *frame) set(v ssa.Value, x Value) {
	fr.env[fr.meta.slot(v)] = x
}

// constValueOf is constValue without an executor: nil when the constant is not a plain scalar.
func constValueOf(c *ssa.Const) (v Value) {
	defer func() {
		if recover() != nil {
			v = nil
		}
	}()
	if c.Value == nil {
		if _, ok := c.Type().Underlying().(*types.Basic); !ok {
			return nil
		}
	}
	return (*Exec)(nil).constValue(c)
}

func (ex *Exec) constValue(c *ssa.Const) Value {
	if c.Value == nil {
		return zero(c.Type())
	}
	t := c.Type().Underlying()
	if b, ok := t.(*types.Basic); ok {
		switch {
		case b.Info()&types.IsBoolean != 0:
			return constant.BoolVal(c.Value)
		case b.Info()&types.IsInteger != 0:
			bits, signed, _ := intKind(t)
			if signed {
				return normInt(c.Int64(), bits, true)
			}
			return normInt(int64(c.Uint64()), bits, false)
		case b.Info()&types.IsFloat != 0:
			return c.Float64()
		case b.Info()&types.IsString != 0:
			if c.Value.Kind() == constant.String {
				return constant.StringVal(c.Value)
			}
			return string(rune(c.Int64()))
		}
	}
	if _, ok := t.(*types.Interface); ok {
		return Iface{}
	}
	panic(ex.unsupported("constant " + c.String()))
}

func (ex *Exec) globalAddr(g *ssa.Global) Ptr {
	if p, ok := ex.globals[g]; ok {
		return p
	}
	// Lazily allocate; reading a global of a package whose initialiser was not run is flagged.
	if g.Pkg != nil && !ex.initDone[g.Pkg] && !ex.eng.harmlessGlobals[g.Pkg.Pkg.Path()] {
		if !ex.ensureInit(g.Pkg) {
			panic(ex.unsupported("global of uninitialised package: " + g.String()))
		}
		if p, ok := ex.globals[g]; ok {
			return p
		}
	}
	v := zero(g.Type().(*types.Pointer).Elem())
	p := &v
	ex.globals[g] = p
	return p
}

func (ex *Exec) unsupported(msg string) pathEnd {
	return pathEnd{kind: "unsupported", msg: msg}
}

func (ex *Exec) rtPanic(msg string) *goPanic {
	return &goPanic{rtErr: msg}
}

// call invokes a function value with arguments.
func (ex *Exec) call(fnv Value, args []Value, site ssa.Instruction) Value {
	switch fn := fnv.(type) {
	case *ssa.Function:
		if fn == nil {
			panic(ex.rtPanic("invalid memory address or nil pointer dereference (nil func call)"))
		}
		return ex.callFunction(fn, args, nil, site)
	case *Closure:
		return ex.callFunction(fn.Fn, args, fn.Env, site)
	case *ssa.Builtin:
		return ex.callBuiltin(fn, args, site)
	case *BoundIntrinsic:
		return fn.Fn(ex, args)
	}
	panic(ex.unsupported(fmt.Sprintf("call of %T", fnv)))
}

func (ex *Exec) callFunction(fn *ssa.Function, args []Value, env []Value, site ssa.Instruction) Value {
	if h := ex.eng.intrinsicFor(fn); h != nil {
		return h(ex, fn, args)
	}
	if r := ex.eng.redirectFor(fn); r != nil {
		fn = r
	}
	return ex.invoke(fn, args, env, site)
}

// invoke interprets the function body.
func (ex *Exec) invoke(fn *ssa.Function, args []Value, env []Value, site ssa.Instruction) Value {
	if fn.Blocks == nil {
		panic(ex.unsupported("no body for " + fn.String()))
	}
	if !ex.funcs[fn] && ex.eng.isRepoFn(fn) {
		ex.funcs[fn] = true
	}
	if ex.eng.ifConvert && ex.eng.isPure(fn) && (anySymbolic(args) || hasSymStruct(args)) {
		if r, ok := ex.evalPure(fn, args); ok {
			return r
		}
	}
	ex.depth++
	if ex.depth > ex.maxDepth {
		panic(pathEnd{kind: "budget", msg: "call depth exceeded in " + fn.String()})
	}
	meta := ex.eng.metaOf(fn)
	fr := &frame{ex: ex, fn: fn, meta: meta, env: make([]Value, meta.n)}
	for i, p := range fn.Params {
		fr.env[meta.slot(p)] = args[i]
	}
	for i, fv := range fn.FreeVars {
		fr.env[meta.slot(fv)] = env[i]
	}
	fr.block = fn.Blocks[0]
	ex.stack = append(ex.stack, fr)
	for fr.block != nil {
		ex.runFrame(fr)
	}
	ex.stack = ex.stack[:len(ex.stack)-1]
	ex.depth--
	if fr.panicking != nil && !fr.recovered {
		panic(fr.panicking)
	}
	return fr.result
}

func anySymbolic(args []Value) bool {
	for _, a := range args {
		switch a.(type) {
		case *Term:
			return true
		}
	}
	return false
}

// runFrame executes until the frame returns; Go-level panics run the defers.
func (ex *Exec) runFrame(fr *frame) {
	defer func() {
		if fr.block == nil {
			return
		}
		r := recover()
		if r == nil {
			return
		}
		gp, ok := r.(*goPanic)
		if !ok {
			panic(r) // engine abort or engine bug: propagate
		}
		if gp.where == "" {
			gp.where = fr.fn.String()
		}
		// unwind call stack bookkeeping to this frame
		for len(ex.stack) > 0 && ex.stack[len(ex.stack)-1] != fr {
			ex.stack = ex.stack[:len(ex.stack)-1]
			ex.depth--
		}
		fr.panicking = gp
		fr.recovered = false
		ex.runDefers(fr)
		if fr.recovered && fr.fn.Recover != nil {
			fr.block = fr.fn.Recover
			fr.panicking = nil
			return
		}
		if fr.recovered {
			// recovered without named results: return zero values
			fr.panicking = nil
			fr.result = zeroResults(fr.fn)
			fr.block = nil
			return
		}
		fr.block = nil
	}()
	for {
		b := fr.block
		var next *ssa.BasicBlock
		done := false
		for _, ins := range b.Instrs {
			ex.steps++
			if ex.steps > ex.budget {
				panic(pathEnd{kind: "budget", msg: "step budget exhausted in " + fr.fn.String()})
			}
			switch ins := ins.(type) {
			case *ssa.If:
				c := fr.get(ins.Cond)
				var t bool
				switch c := c.(type) {
				case bool:
					t = c
				case *Term:
					t = ex.decide(c)
				default:
					panic(ex.unsupported(fmt.Sprintf("if on %T", c)))
				}
				if t {
					next = b.Succs[0]
				} else {
					next = b.Succs[1]
				}
			case *ssa.Jump:
				next = b.Succs[0]
			case *ssa.Return:
				switch len(ins.Results) {
				case 0:
					fr.result = nil
				case 1:
					fr.result = fr.get(ins.Results[0])
				default:
					t := make(Tuple, len(ins.Results))
					for i, r := range ins.Results {
						t[i] = fr.get(r)
					}
					fr.result = t
				}
				fr.block = nil
				done = true
			case *ssa.Panic:
				panic(&goPanic{val: fr.get(ins.X), where: fr.fn.String()})
			default:
				ex.exec(fr, ins)
			}
			if done || next != nil {
				break
			}
		}
		if done {
			return
		}
		fr.prev = b
		fr.block = next
	}
}

// storeInto assigns v to the cell, updating aggregates in place so that
// pointers to their fields/elements stay valid.
func storeInto(p Ptr, v Value) {
	switch nv := v.(type) {
	case Struct:
		if old, ok := (*p).(Struct); ok && len(old) == len(nv) {
			for i := range old {
				storeInto(&old[i], nv[i])
			}
			return
		}
	case Array:
		if old, ok := (*p).(Array); ok && len(old) == len(nv) {
			for i := range old {
				storeInto(&old[i], nv[i])
			}
			return
		}
	}
	*p = copyVal(v)
}

func zeroResults(fn *ssa.Function) Value {
	res := fn.Signature.Results()
	switch res.Len() {
	case 0:
		return nil
	case 1:
		return zero(res.At(0).Type())
	}
	return zero(res)
}

func (ex *Exec) runDefers(fr *frame) {
	for len(fr.defers) > 0 {
		d := fr.defers[len(fr.defers)-1]
		fr.defers = fr.defers[:len(fr.defers)-1]
		func() {
			defer func() {
				if r := recover(); r != nil {
					gp, ok := r.(*goPanic)
					if !ok {
						panic(r)
					}
					for len(ex.stack) > 0 && ex.stack[len(ex.stack)-1] != fr {
						ex.stack = ex.stack[:len(ex.stack)-1]
						ex.depth--
					}
					fr.panicking = gp // a deferred call panicked: replaces the panic
					fr.recovered = false
				}
			}()
			ex.deferOwner = append(ex.deferOwner, fr)
			ex.call(d.fn, d.args, d.inst)
			ex.deferOwner = ex.deferOwner[:len(ex.deferOwner)-1]
		}()
	}
}

func (ex *Exec) exec(fr *frame, ins ssa.Instruction) {
	if debugInstr {
		ex.lastInstr = fmt.Sprintf("%s: %s", fr.fn, ins)
	}
	switch ins := ins.(type) {
	case *ssa.DebugRef:
	case *ssa.Alloc:
		v := zero(ins.Type().(*types.Pointer).Elem())
		p := &v
		fr.set(ins, Ptr(p))
	case *ssa.UnOp:
		fr.set(ins, ex.unop(ins, fr.get(ins.X)))
	case *ssa.BinOp:
		fr.set(ins, ex.binop(ins.Op, ins.X.Type(), fr.get(ins.X), fr.get(ins.Y)))
	case *ssa.Call:
		fr.set(ins, ex.doCall(fr, &ins.Call, ins))
	case *ssa.ChangeInterface:
		fr.set(ins, fr.get(ins.X))
	case *ssa.ChangeType:
		fr.set(ins, fr.get(ins.X))
	case *ssa.Convert:
		fr.set(ins, ex.convert(ins.X.Type(), ins.Type(), fr.get(ins.X)))
	case *ssa.Store:
		p := fr.get(ins.Addr).(Ptr)
		if p == nil {
			panic(ex.rtPanic("invalid memory address or nil pointer dereference"))
		}
		ex.noteWrite(p)
		storeInto(p, fr.get(ins.Val))
	case *ssa.FieldAddr:
		p := fr.get(ins.X).(Ptr)
		if p == nil {
			panic(ex.rtPanic("invalid memory address or nil pointer dereference"))
		}
		s := (*p).(Struct)
		fr.set(ins, Ptr(&s[ins.Field]))
	case *ssa.Field:
		s := fr.get(ins.X).(Struct)
		fr.set(ins, copyVal(s[ins.Field]))
	case *ssa.IndexAddr:
		fr.set(ins, ex.indexAddr(fr.get(ins.X), fr.get(ins.Index), ins.Index.Type()))
	case *ssa.Index:
		x := fr.get(ins.X)
		idx := fr.get(ins.Index)
		switch x := x.(type) {
		case Array:
			i := ex.concreteIndex(idx, ins.Index.Type(), len(x))
			fr.set(ins, copyVal(x[i]))
		default:
			fr.set(ins, ex.strIndex(x, idx, ins.Index.Type()))
		}
	case *ssa.Lookup:
		fr.set(ins, ex.lookup(ins, fr.get(ins.X), fr.get(ins.Index)))
	case *ssa.MapUpdate:
		m := fr.get(ins.Map).(*Map)
		ex.mapUpdate(m, fr.get(ins.Key), fr.get(ins.Value))
	case *ssa.MakeMap:
		fr.set(ins, newMap())
	case *ssa.MakeSlice:
		n := ex.concreteInt(fr.get(ins.Len), ins.Len.Type())
		c := ex.concreteInt(fr.get(ins.Cap), ins.Cap.Type())
		if n < 0 || c < n {
			panic(ex.rtPanic("makeslice: len out of range"))
		}
		et := ins.Type().Underlying().(*types.Slice).Elem()
		s := make(Slice, n, c)
		for i := range s {
			s[i] = zero(et)
		}
		fr.set(ins, s)
	case *ssa.MakeClosure:
		env := make([]Value, len(ins.Bindings))
		for i, b := range ins.Bindings {
			env[i] = fr.get(b)
		}
		fr.set(ins, &Closure{Fn: ins.Fn.(*ssa.Function), Env: env})
	case *ssa.MakeInterface:
		fr.set(ins, Iface{T: ins.X.Type(), V: fr.get(ins.X)})
	case *ssa.Extract:
		fr.set(ins, fr.get(ins.Tuple).(Tuple)[ins.Index])
	case *ssa.Slice:
		fr.set(ins, ex.sliceOp(fr, ins))
	case *ssa.Phi:
		for i, pred := range ins.Block().Preds {
			if pred == fr.prev {
				fr.set(ins, fr.get(ins.Edges[i]))
				break
			}
		}
	case *ssa.TypeAssert:
		fr.set(ins, ex.typeAssert(ins, fr.get(ins.X)))
	case *ssa.Range:
		x := fr.get(ins.X)
		switch x := x.(type) {
		case *Map:
			fr.set(ins, ex.newMapIter(x))
		default:
			fr.set(ins, &StrIter{s: ex.forceStr(x)})
		}
	case *ssa.Next:
		fr.set(ins, ex.next(ins, fr.get(ins.Iter)))
	case *ssa.Defer:
		fn, args := ex.prepareCall(fr, &ins.Call)
		fr.defers = append(fr.defers, deferred{fn: fn, args: args, inst: ins})
	case *ssa.RunDefers:
		ex.runDefers(fr)
		if fr.panicking != nil && !fr.recovered {
			panic(fr.panicking)
		}
	case *ssa.Go:
		ex.goStmt(fr, ins)
	case *ssa.MakeChan:
		n := ex.concreteInt(fr.get(ins.Size), types.Typ[types.Int])
		fr.set(ins, &Chan{cap: n, elem: ins.Type().Underlying().(*types.Chan).Elem()})
	case *ssa.Send:
		ch, _ := fr.get(ins.Chan).(*Chan)
		if ex.par != nil {
			panic(ex.unsupported("channel send between threads"))
		}
		if ch == nil {
			panic(ex.unsupported("send on nil channel blocks forever"))
		}
		if ch.closed {
			panic(ex.rtPanic("send on closed channel"))
		}
		if len(ch.buf) >= ch.cap {
			panic(ex.unsupported("channel send would block (no other goroutine is modelled)"))
		}
		ch.buf = append(ch.buf, fr.get(ins.X))
	case *ssa.Select:
		panic(ex.unsupported(fmt.Sprintf("instruction %T", ins)))
	default:
		panic(ex.unsupported(fmt.Sprintf("instruction %T", ins)))
	}
}

func (ex *Exec) prepareCall(fr *frame, c *ssa.CallCommon) (Value, []Value) {
	var fn Value
	var args []Value
	if c.IsInvoke() {
		recv := fr.get(c.Value).(Iface)
		if recv.T == nil {
			panic(ex.rtPanic("invalid memory address or nil pointer dereference (method call on nil interface)"))
		}
		m := ex.eng.lookupMethod(recv.T, c.Method)
		if m == nil {
			panic(ex.unsupported(fmt.Sprintf("method %s not found on %s", c.Method.Name(), recv.T)))
		}
		fn = m
		args = append(args, recv.V)
	} else {
		fn = fr.get(c.Value)
	}
	for _, a := range c.Args {
		args = append(args, fr.get(a))
	}
	return fn, args
}

func (ex *Exec) doCall(fr *frame, c *ssa.CallCommon, site ssa.Instruction) Value {
	fn, args := ex.prepareCall(fr, c)
	return ex.call(fn, args, site)
}

func (e *Engine) lookupMethod(t types.Type, m *types.Func) *ssa.Function {
	type key struct {
		t string
		m string
	}
	k := key{typeKey(t), m.Id()}
	if f, ok := e.methodCache.Load(k); ok {
		return f.(*ssa.Function)
	}
	e.mu.Lock()
	f := e.prog.LookupMethod(t, m.Pkg(), m.Name())
	e.mu.Unlock()
	e.methodCache.Store(k, f)
	return f
}

func (ex *Exec) unop(ins *ssa.UnOp, x Value) Value {
	switch ins.Op {
	case token.MUL: // load
		p := x.(Ptr)
		if p == nil {
			panic(ex.rtPanic("invalid memory address or nil pointer dereference"))
		}
		ex.noteRead(p)
		return copyVal(*p)
	case token.NOT:
		switch x := x.(type) {
		case bool:
			return !x
		case *Term:
			return ex.ts.Not(x)
		}
	case token.SUB:
		switch x := x.(type) {
		case int64:
			bits, signed, _ := intKind(ins.X.Type())
			return normInt(-x, bits, signed)
		case float64:
			return -x
		case *Term:
			return ex.ts.Neg(x)
		}
	case token.XOR:
		switch x := x.(type) {
		case int64:
			bits, signed, _ := intKind(ins.X.Type())
			return normInt(^x, bits, signed)
		case *Term:
			return ex.ts.BNot(x)
		}
	case token.ARROW:
		ch, _ := x.(*Chan)
		if ex.par != nil {
			panic(ex.unsupported("channel receive between threads"))
		}
		if ch == nil {
			panic(ex.unsupported("receive from nil channel blocks forever"))
		}
		var v Value
		ok := true
		switch {
		case len(ch.buf) > 0:
			v = ch.buf[0]
			ch.buf = ch.buf[1:]
		case ch.closed:
			v, ok = zero(ch.elem), false
		default:
			panic(ex.unsupported("channel receive would block (no other goroutine is modelled)"))
		}
		if ins.CommaOk {
			return Tuple{v, ok}
		}
		return v
	}
	panic(ex.unsupported(fmt.Sprintf("unop %s on %T", ins.Op, x)))
}

// concreteInt forces an integer value to be concrete (forking over its feasible values).
func (ex *Exec) concreteInt(v Value, t types.Type) int {
	switch v := v.(type) {
	case int64:
		return int(v)
	case *Term:
		bits, signed, _ := intKind(t)
		u := ex.concretize(v)
		if signed {
			return int(sext(u, bits))
		}
		return int(u)
	}
	panic(ex.unsupported(fmt.Sprintf("concreteInt of %T", v)))
}

// concreteIndex returns a concrete in-range index or raises the Go bounds panic.
func (ex *Exec) concreteIndex(idx Value, t types.Type, n int) int {
	switch i := idx.(type) {
	case int64:
		if i < 0 || int(i) >= n {
			panic(ex.rtPanic(fmt.Sprintf("index out of range [%d] with length %d", i, n)))
		}
		return int(i)
	case *Term:
		bits, signed, _ := intKind(t)
		// out of range feasible?
		var oob *Term
		// the upper comparison is vacuous when n does not fit the index type
		upperVacuous := false
		if signed && bits < 64 && uint64(n) >= uint64(1)<<uint(bits-1) {
			upperVacuous = true
		}
		if !signed && bits < 64 && uint64(n) >= uint64(1)<<uint(bits) {
			upperVacuous = true
		}
		switch {
		case signed && upperVacuous:
			oob = ex.ts.Bin(OpSLt, i, ex.ts.Const(0, bits))
		case signed:
			oob = ex.ts.Or(ex.ts.Bin(OpSLt, i, ex.ts.Const(0, bits)), ex.ts.Not(ex.ts.Bin(OpSLt, i, ex.ts.Const(uint64(n), bits))))
		case upperVacuous:
			return int(ex.concretize(i))
		default:
			oob = ex.ts.Not(ex.ts.Bin(OpULt, i, ex.ts.Const(uint64(n), bits)))
		}
		if ex.decide(oob) {
			v := ex.concretize(i)
			if signed && bits < 64 && v&(uint64(1)<<uint(bits-1)) != 0 {
				v |= ^uint64(0) << uint(bits)
			}
			if signed && int64(v) < 0 {
				panic(ex.rtPanic(fmt.Sprintf("index out of range [%d]", int64(v))))
			}
			panic(ex.rtPanic(fmt.Sprintf("index out of range [%d] with length %d", v, n)))
		}
		return int(ex.concretize(i))
	}
	panic(ex.unsupported(fmt.Sprintf("index of %T", idx)))
}

func (ex *Exec) indexAddr(x Value, idx Value, it types.Type) Value {
	switch x := x.(type) {
	case Slice:
		i := ex.concreteIndex(idx, it, len(x))
		return Ptr(&x[i])
	case Ptr:
		if x == nil {
			panic(ex.rtPanic("invalid memory address or nil pointer dereference"))
		}
		a := (*x).(Array)
		i := ex.concreteIndex(idx, it, len(a))
		return Ptr(&a[i])
	}
	panic(ex.unsupported(fmt.Sprintf("indexaddr of %T", x)))
}

func (ex *Exec) sliceOp(fr *frame, ins *ssa.Slice) Value {
	x := fr.get(ins.X)
	bound := func(v ssa.Value, def int) int {
		if v == nil {
			return def
		}
		return ex.concreteInt(fr.get(v), v.Type())
	}
	switch x := x.(type) {
	case Slice:
		lo := bound(ins.Low, 0)
		hi := bound(ins.High, len(x))
		mx := bound(ins.Max, cap(x))
		if lo < 0 || hi < lo || mx < hi || mx > cap(x) {
			panic(ex.rtPanic(fmt.Sprintf("slice bounds out of range [%d:%d:%d] with capacity %d", lo, hi, mx, cap(x))))
		}
		if x == nil {
			return Slice(nil)
		}
		return x[lo:hi:mx]
	case Ptr:
		if x == nil {
			panic(ex.rtPanic("invalid memory address or nil pointer dereference"))
		}
		a := Slice((*x).(Array))
		lo := bound(ins.Low, 0)
		hi := bound(ins.High, len(a))
		mx := bound(ins.Max, cap(a))
		if lo < 0 || hi < lo || mx < hi || mx > len(a) {
			panic(ex.rtPanic("slice bounds out of range"))
		}
		return a[lo:hi:mx]
	default: // strings
		s := ex.forceStr(x)
		if ss, ok := s.(*SymStr); ok && ins.High != nil && ex.tokSrc != nil {
			if ht, ok := fr.get(ins.High).(*Term); ok {
				if lo, isConc := fr.getOpt(ins.Low).(int64); isConc {
					if r, ok := ex.sliceTokSrc(ss, int(lo), ht); ok {
						return r
					}
				}
			}
		}
		n := ex.strLen(s)
		lo := bound(ins.Low, 0)
		hi := bound(ins.High, n)
		if lo < 0 || hi < lo || hi > n {
			panic(ex.rtPanic(fmt.Sprintf("slice bounds out of range [%d:%d] with length %d", lo, hi, n)))
		}
		return ex.strSlice(s, lo, hi)
	}
}

func (ex *Exec) typeAssert(ins *ssa.TypeAssert, x Value) Value {
	itf := x.(Iface)
	ok := false
	var v Value
	if itf.T != nil {
		if types.IsInterface(ins.AssertedType) {
			if ex.eng.implements(itf.T, ins.AssertedType) {
				ok = true
				v = itf
			}
		} else if types.Identical(itf.T, ins.AssertedType) {
			ok = true
			v = itf.V
		}
	}
	if ins.CommaOk {
		if !ok {
			v = zero(ins.AssertedType)
		}
		return Tuple{v, ok}
	}
	if !ok {
		ts := "nil"
		if itf.T != nil {
			ts = itf.T.String()
		}
		panic(ex.rtPanic(fmt.Sprintf("interface conversion: interface is %s, not %s", ts, ins.AssertedType)))
	}
	return v
}

func (e *Engine) implements(t types.Type, iface types.Type) bool {
	type key struct{ a, b string }
	k := key{typeKey(t), typeKey(iface)}
	if r, ok := e.implCache.Load(k); ok {
		return r.(bool)
	}
	it := iface.Underlying().(*types.Interface)
	r := types.Implements(t, it)
	e.implCache.Store(k, r)
	return r
}

func (ex *Exec) lookup(ins *ssa.Lookup, x, idx Value) Value {
	switch x := x.(type) {
	case *Map:
		et := ins.X.Type().Underlying().(*types.Map).Elem()
		v, ok := ex.mapLookup(x, idx)
		if !ok {
			v = zero(et)
		}
		if ins.CommaOk {
			return Tuple{copyVal(v), ok}
		}
		return copyVal(v)
	default:
		return ex.strIndex(x, idx, ins.Index.Type())
	}
}

// keyEq builds the condition "map key a equals b".
func (ex *Exec) keyEq(a, b Value) Value {
	return ex.equal(a, b)
}

func (ex *Exec) mapLookup(m *Map, k Value) (Value, bool) {
	if m == nil {
		return nil, false
	}
	ex.noteMap(m, false)
	k = ex.normKey(k)
	if h, ok := hashable(k); ok {
		// concrete key; symbolic keys stored in the map must still be compared
		if i, found := m.idx[h]; found {
			return m.entries[i].V, true
		}
		if !m.hasSymKeys() {
			return nil, false
		}
	}
	// symbolic comparison against every live entry, in order
	for _, e := range m.entries {
		if e.dead {
			continue
		}
		c := ex.keyEq(e.K, k)
		switch c := c.(type) {
		case bool:
			if c {
				return e.V, true
			}
		case *Term:
			if ex.decide(c) {
				return e.V, true
			}
		}
	}
	return nil, false
}

func (m *Map) hasSymKeys() bool {
	return len(m.idx) != m.n
}

func (ex *Exec) normKey(k Value) Value {
	switch s := k.(type) {
	case *LazyStr, *SymStr:
		return ex.forceStr(s)
	case *VStr:
		return s
	}
	return k
}

func (ex *Exec) mapUpdate(m *Map, k, v Value) {
	if m == nil {
		panic(ex.rtPanic("assignment to entry in nil map"))
	}
	ex.noteMap(m, true)
	k = ex.normKey(k)
	h, conc := hashable(k)
	if conc && !m.hasSymKeys() {
		if i, found := m.idx[h]; found {
			m.entries[i].V = copyVal(v)
			return
		}
		m.idx[h] = len(m.entries)
		m.entries = append(m.entries, &MapEntry{K: k, V: copyVal(v)})
		m.n++
		return
	}
	for _, e := range m.entries {
		if e.dead {
			continue
		}
		c := ex.keyEq(e.K, k)
		hit := false
		switch c := c.(type) {
		case bool:
			hit = c
		case *Term:
			hit = ex.decide(c)
		}
		if hit {
			e.V = copyVal(v)
			return
		}
	}
	if conc {
		m.idx[h] = len(m.entries)
	}
	m.entries = append(m.entries, &MapEntry{K: k, V: copyVal(v)})
	m.n++
}

func (ex *Exec) mapDelete(m *Map, k Value) {
	if m == nil {
		return
	}
	ex.noteMap(m, true)
	k = ex.normKey(k)
	for i, e := range m.entries {
		if e.dead {
			continue
		}
		c := ex.keyEq(e.K, k)
		hit := false
		switch c := c.(type) {
		case bool:
			hit = c
		case *Term:
			hit = ex.decide(c)
		}
		if hit {
			e.dead = true
			m.n--
			if h, ok := hashable(e.K); ok {
				if m.idx[h] == i {
					delete(m.idx, h)
				}
			}
			return
		}
	}
}

func (ex *Exec) newMapIter(m *Map) *MapIter {
	it := &MapIter{m: m}
	if m == nil {
		return it
	}
	ex.noteMap(m, false)
	var live []int
	for i, e := range m.entries {
		if !e.dead {
			live = append(live, i)
		}
	}
	if ex.permuteMaps && len(live) > 1 {
		// symbolic permutation, concretised by forking (Fisher-Yates with chosen indices)
		for i := 0; i < len(live)-1; i++ {
			j := i + ex.chooseN(len(live)-i, "maporder")
			live[i], live[j] = live[j], live[i]
		}
	}
	it.perm = live
	return it
}

func (ex *Exec) next(ins *ssa.Next, itv Value) Value {
	switch it := itv.(type) {
	case *MapIter:
		for it.pos < len(it.perm) {
			e := it.m.entries[it.perm[it.pos]]
			it.pos++
			if e.dead {
				continue
			}
			return Tuple{true, e.K, copyVal(e.V)}
		}
		return Tuple{false, nil, nil}
	case *StrIter:
		n := ex.strLen(it.s)
		if it.pos >= n {
			return Tuple{false, int64(0), int64(0)}
		}
		r, size := ex.decodeRune(it.s, it.pos)
		i := it.pos
		it.pos += size
		return Tuple{true, int64(i), r}
	}
	panic(ex.unsupported(fmt.Sprintf("next on %T", itv)))
}

func (ex *Exec) callBuiltin(b *ssa.Builtin, args []Value, site ssa.Instruction) Value {
	switch b.Name() {
	case "append":
		if len(args) == 1 {
			return args[0]
		}
		s, _ := args[0].(Slice)
		if ex.shared != nil && cap(s) > len(s) {
			ex.noteWrite(&s[:len(s)+1][len(s)])
		}
		switch t := args[1].(type) {
		case Slice:
			if len(t) == 0 {
				return args[0]
			}
			r := append(s, make(Slice, len(t))...)
			for i, v := range t {
				r[len(s)+i] = copyVal(v)
			}
			return r
		default: // append([]byte, string...)
			bs := ex.strBytes(ex.forceStr(t))
			return append(s, bs...)
		}
	case "copy":
		dst, _ := args[0].(Slice)
		var src []Value
		switch t := args[1].(type) {
		case Slice:
			src = t
		default:
			src = ex.strBytes(ex.forceStr(t))
		}
		n := len(dst)
		if len(src) < n {
			n = len(src)
		}
		tmp := make([]Value, n)
		for i := 0; i < n; i++ {
			tmp[i] = copyVal(src[i])
		}
		copy(dst, tmp)
		return int64(n)
	case "len":
		switch x := args[0].(type) {
		case Slice:
			return int64(len(x))
		case Array:
			return int64(len(x))
		case *Map:
			if x == nil {
				return int64(0)
			}
			return int64(x.n)
		case Ptr:
			return int64(len((*x).(Array)))
		case *Chan:
			if x == nil {
				return int64(0)
			}
			return int64(len(x.buf))
		default:
			return ex.strLenV(x)
		}
	case "cap":
		switch x := args[0].(type) {
		case Slice:
			return int64(cap(x))
		case Array:
			return int64(len(x))
		case *Chan:
			if x == nil {
				return int64(0)
			}
			return int64(x.cap)
		}
	case "min", "max":
		r := args[0]
		for _, a := range args[1:] {
			var t types.Type
			if call, ok := site.(*ssa.Call); ok {
				t = call.Call.Args[0].Type()
			} else {
				t = types.Typ[types.Int]
			}
			op := token.LSS
			if b.Name() == "max" {
				op = token.GTR
			}
			c := ex.binop(op, t, a, r)
			switch c := c.(type) {
			case bool:
				if c {
					r = a
				}
			case *Term:
				r = ex.iteVal(c, a, r, t)
			}
		}
		return r
	case "delete":
		ex.mapDelete(args[0].(*Map), args[1])
		return nil
	case "close":
		ch, _ := args[0].(*Chan)
		if ch == nil {
			panic(ex.rtPanic("close of nil channel"))
		}
		if ch.closed {
			panic(ex.rtPanic("close of closed channel"))
		}
		ch.closed = true
		return nil
	case "panic":
		panic(&goPanic{val: args[0]})
	case "recover":
		return ex.doRecover()
	case "print", "println":
		return nil
	case "ssa:wrapnilchk":
		if p, ok := args[0].(Ptr); ok && p == nil {
			panic(ex.rtPanic("value method called using nil pointer"))
		}
		return args[0]
	case "clear":
		switch x := args[0].(type) {
		case Slice:
			if call, ok := site.(*ssa.Call); ok {
				et := call.Call.Args[0].Type().Underlying().(*types.Slice).Elem()
				for i := range x {
					x[i] = zero(et)
				}
			} else {
				panic(ex.unsupported("clear of a slice outside a plain call"))
			}
		case *Map:
			if x != nil {
				x.entries = nil
				x.idx = map[any]int{}
				x.n = 0
			}
		}
		return nil
	}
	panic(ex.unsupported("builtin " + b.Name()))
}

func (ex *Exec) doRecover() Value {
	// recover() is only effective when called directly by a deferred function.
	if len(ex.deferOwner) == 0 {
		return Iface{}
	}
	owner := ex.deferOwner[len(ex.deferOwner)-1]
	// the caller of recover must be the deferred function itself: stack top's parent is owner
	if len(ex.stack) < 2 || ex.stack[len(ex.stack)-2] != owner {
		return Iface{}
	}
	if owner.panicking == nil || owner.recovered {
		return Iface{}
	}
	owner.recovered = true
	gp := owner.panicking
	if gp.rtErr != "" {
		return Iface{T: ex.eng.runtimeErrorType(), V: "runtime error: " + gp.rtErr}
	}
	if iv, ok := gp.val.(Iface); ok {
		return iv
	}
	return Iface{}
}

// iteVal merges two scalar values under a symbolic condition.
func (ex *Exec) iteVal(c *Term, a, b Value, t types.Type) Value {
	ta := ex.toTerm(a, t)
	tb := ex.toTerm(b, t)
	return ex.ts.Ite(c, ta, tb)
}

// toTerm lifts a concrete scalar to a term of the static type's sort.
func (ex *Exec) toTerm(v Value, t types.Type) *Term {
	switch v := v.(type) {
	case *Term:
		return v
	case bool:
		return ex.ts.Bool(v)
	case int64:
		bits, _, ok := intKind(t)
		if !ok {
			panic(ex.unsupported("toTerm of non-integer type " + t.String()))
		}
		return ex.ts.Const(uint64(v), bits)
	}
	panic(ex.unsupported(fmt.Sprintf("toTerm of %T", v)))
}

func (ex *Exec) goStmt(fr *frame, ins *ssa.Go) {
	panic(ex.unsupported("go statement"))
}

func describeStack(ex *Exec) string {
	var parts []string
	for i := len(ex.stack) - 1; i >= 0 && len(parts) < 6; i-- {
		parts = append(parts, ex.stack[i].fn.String())
	}
	return strings.Join(parts, " <- ")
}
