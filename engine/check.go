package main

// Property checks: run the harness families of a property, confirm
// counterexamples natively, validate sampled paths, write evidence.

import (
	"bytes"
	"context"
	"crypto/sha1"
	"encoding/json"
	"flag"
	"fmt"
	"os"
	"os/exec"
	"path/filepath"
	"regexp"
	"sort"
	"strconv"
	"strings"
	"time"
)

type RunSpec struct {
	Harness  string
	Args     []int64
	Budget   int
	MaxPaths int
	Label    string
	CrossObs bool // observations with the same label must agree across all paths of the run (fresh state per path)
}

type PropSpec struct {
	ID        string
	Title     string
	Quick     []RunSpec
	Thorough  []RunSpec
	OwnsPanic bool     // panics/hangs of the code under test are violations of this property
	Covers    []string // labels that must be reached (vacuity guard)
	Bounds    map[string]string
	Outside   []string
	Stubs     []string
	Assume    []string
	CLI       bool // harness lives in package main of cmd/pql (overlay)
	Threads   bool // uses verif.Par: schedules re-explored when new written locations appear; -race replays
}

type ReplayFile struct {
	Property string        `json:"property"`
	Harness  string        `json:"harness"`
	Args     []int64       `json:"args"`
	Inputs   []ReplayInput `json:"inputs"`
	Expect   string        `json:"expect"`
	Note     string        `json:"note,omitempty"`
	// history violations: a second execution (fresh process) whose observation Label must agree
	CompareWith []ReplayInput `json:"compare_with,omitempty"`
	Label       string        `json:"label,omitempty"`
}

type KnownFinding struct {
	Property string `json:"property"`
	Status   string `json:"status"` // "open" or "fixed"
	Kind     string `json:"kind,omitempty"`
	Msg      string `json:"msg_contains,omitempty"`
	Where    string `json:"where_contains,omitempty"`
	Input    string `json:"input_regex,omitempty"`
	Harness  string `json:"harness_contains,omitempty"` // matched against "<harness>[args]" of the run that reported it
	What     string `json:"what"`
	Commit   string `json:"commit,omitempty"`
}

type nativeResult struct {
	Outcome string // passed, assert, panic, hang, assume, bad, error
	Msg     string
	Obs     []string
	Out     string
}

func runNative(bin string, rf *ReplayFile, dir string, timeout time.Duration) nativeResult {
	b, _ := json.Marshal(rf)
	f, err := os.CreateTemp(dir, "replay-*.json")
	if err != nil {
		return nativeResult{Outcome: "error", Msg: err.Error()}
	}
	f.Write(b)
	f.Close()
	defer os.Remove(f.Name())
	return runNativeFile(bin, f.Name(), timeout)
}

func runNativeFile(bin, path string, timeout time.Duration) nativeResult {
	ctx, cancel := context.WithTimeout(context.Background(), timeout)
	defer cancel()
	cmd := exec.CommandContext(ctx, bin, "-obs", path)
	cmd.Env = append(os.Environ(), "VERIF_REPLAY_FILE="+path)
	var out bytes.Buffer
	cmd.Stdout = &out
	cmd.Stderr = &out
	err := cmd.Run()
	res := nativeResult{Out: out.String()}
	for _, line := range strings.Split(out.String(), "\n") {
		if strings.HasPrefix(line, "OBS ") {
			if s, err := strconv.Unquote(strings.TrimPrefix(line, "OBS ")); err == nil {
				res.Obs = append(res.Obs, s)
			}
		}
		if strings.HasPrefix(line, "ASSERT-FAILED: ") {
			res.Msg = strings.TrimPrefix(line, "ASSERT-FAILED: ")
		}
		if strings.HasPrefix(line, "PANIC: ") && res.Msg == "" {
			res.Msg = strings.TrimPrefix(line, "PANIC: ")
		}
		if strings.HasPrefix(line, "BAD-REPLAY: ") {
			res.Msg = line
		}
	}
	if ctx.Err() == context.DeadlineExceeded {
		res.Outcome = "hang"
		return res
	}
	if strings.Contains(res.Out, "WARNING: DATA RACE") {
		res.Outcome = "race"
		res.Msg = "race detector: DATA RACE"
		return res
	}
	code := 0
	if err != nil {
		if ee, ok := err.(*exec.ExitError); ok {
			code = ee.ExitCode()
		} else {
			res.Outcome = "error"
			res.Msg = err.Error()
			return res
		}
	}
	switch code {
	case 0:
		res.Outcome = "passed"
	case 3:
		res.Outcome = "assert"
	case 4:
		res.Outcome = "panic"
	case 5:
		if strings.Contains(res.Out, "ASSUME-FALSE") {
			res.Outcome = "assume"
		} else {
			res.Outcome = "bad"
		}
	default:
		res.Outcome = "error"
		res.Msg = fmt.Sprintf("exit %d: %s", code, firstLines(res.Out, 5))
	}
	return res
}

func obsValue(obs []string, label string) (string, bool) {
	for _, o := range obs {
		if strings.HasPrefix(o, label+"=") {
			return o[len(label)+1:], true
		}
	}
	return "", false
}

func clip(s string, n int) string {
	if len(s) > n {
		return s[:n] + "…"
	}
	return s
}

func firstLines(s string, n int) string {
	lines := strings.Split(s, "\n")
	if len(lines) > n {
		lines = lines[:n]
	}
	return strings.Join(lines, " | ")
}

func goEnv() []string {
	verifDir := envOr("VERIF_DIR", "/verif")
	flags := goFlagsFor(envOr("VERIF_REPO", "/repo"), filepath.Join(verifDir, "harness"))
	return append(os.Environ(), "GOFLAGS="+flags, "GOPROXY=off", "GOSUMDB=off", "GOTOOLCHAIN=local", "CGO_ENABLED=0")
}

// buildReplay compiles the native replay command against the current tree of the repository.
func buildReplay(harnessDir, outDir string, race bool) (string, error) {
	bin := filepath.Join(outDir, fmt.Sprintf("replay-%d", os.Getpid()))
	cmd := exec.Command("go", "build", "-o", bin, "./cmd/replay")
	cmd.Env = goEnv()
	if race {
		// concurrency checks replay under the race detector (needs cgo)
		cmd = exec.Command("go", "build", "-race", "-o", bin, "./cmd/replay")
		cmd.Env = append(goEnv(), "CGO_ENABLED=1")
	}
	cmd.Dir = harnessDir
	out, err := cmd.CombinedOutput()
	if err != nil {
		return "", fmt.Errorf("go build replay: %v\n%s", err, out)
	}
	return bin, nil
}

// buildCLIReplay compiles cmd/pql with the C16 harness overlaid (nothing is written into the repository).
func buildCLIReplay(repoDir, virtualPath, realPath, outDir string) (string, error) {
	ov := filepath.Join(outDir, fmt.Sprintf("overlay-%d.json", os.Getpid()))
	b, _ := json.Marshal(map[string]any{"Replace": map[string]string{virtualPath: realPath}})
	if err := os.WriteFile(ov, b, 0o644); err != nil {
		return "", err
	}
	defer os.Remove(ov)
	bin := filepath.Join(outDir, fmt.Sprintf("replay-cli-%d", os.Getpid()))
	cmd := exec.Command("go", "build", "-overlay", ov, "-o", bin, "./cmd/pql")
	cmd.Dir = repoDir
	cmd.Env = goEnv()
	out, err := cmd.CombinedOutput()
	if err != nil {
		return "", fmt.Errorf("go build cmd/pql with overlay: %v\n%s", err, out)
	}
	return bin, nil
}

func loadFindings(path string) []KnownFinding {
	b, err := os.ReadFile(path)
	if err != nil {
		return nil
	}
	var doc struct {
		Findings []KnownFinding `json:"findings"`
	}
	if err := json.Unmarshal(b, &doc); err != nil {
		fmt.Fprintln(os.Stderr, "known_findings.json:", err)
		return nil
	}
	return doc.Findings
}

func (k *KnownFinding) matches(prop string, v *Violation, rendered string, run string) bool {
	if k.Property != prop || k.Status != "open" {
		return false
	}
	if k.Harness != "" && !strings.Contains(run, k.Harness) {
		return false
	}
	if k.Kind != "" && k.Kind != v.Kind {
		return false
	}
	if k.Msg != "" && !strings.Contains(v.Msg, k.Msg) {
		return false
	}
	if k.Where != "" && !strings.Contains(v.Where, k.Where) {
		return false
	}
	if k.Input != "" {
		re, err := regexp.Compile(k.Input)
		if err != nil || !re.MatchString(rendered) {
			return false
		}
	}
	return true
}

func violationKey(v *Violation) string {
	return v.Kind + "|" + v.Msg + "|" + showInputs(v.Inputs)
}

type evidence struct {
	PropertyID  string         `json:"property_id"`
	Tier        string         `json:"tier"`
	Seed        int            `json:"seed"`
	Level       string         `json:"level"`
	Coverage    map[string]any `json:"coverage"`
	Assumptions []string       `json:"assumptions"`
	WallS       float64        `json:"wall_s"`
	Violations  int            `json:"violations"`
}

func cmdCheck(argv []string) int {
	fs := flag.NewFlagSet("check", flag.ExitOnError)
	workers := fs.Int("workers", 16, "parallel workers")
	evDir := fs.String("evidence", filepath.Join(envOr("VERIF_DIR", "/verif"), "evidence"), "evidence directory")
	fs.Parse(argv)
	if fs.NArg() < 2 {
		fmt.Fprintln(os.Stderr, "usage: gosym check [flags] <property> quick|thorough")
		return 2
	}
	id, tier := fs.Arg(0), fs.Arg(1)
	spec := propSpecs()[id]
	if spec == nil {
		fmt.Fprintln(os.Stderr, "unknown property", id)
		return 2
	}
	if tier != "quick" && tier != "thorough" {
		fmt.Fprintln(os.Stderr, "tier must be quick or thorough")
		return 2
	}
	seed, _ := strconv.Atoi(os.Getenv("VERIF_SEED"))
	verifDir := envOr("VERIF_DIR", "/verif")
	repoDir := envOr("VERIF_REPO", "/repo")
	harnessDir := filepath.Join(verifDir, "harness")
	buildDir := filepath.Join(verifDir, ".build")
	os.MkdirAll(buildDir, 0o755)
	if repoDir != "/repo" && *evDir == filepath.Join(verifDir, "evidence") {
		// runs against another checkout are experiments, not evidence about /repo
		*evDir = filepath.Join(buildDir, "evidence-alt")
	}
	if strings.HasPrefix(id, "SELF") {
		// the engine's own regression runs are not property evidence
		*evDir = filepath.Join(buildDir, "selftest")
	}
	os.MkdirAll(*evDir, 0o755)
	replayDir := filepath.Join(verifDir, "replays")
	os.MkdirAll(replayDir, 0o755)
	t0 := time.Now()
	sampleK := 97
	if strings.HasPrefix(id, "SELF") {
		sampleK = 1
	}

	broken := func(format string, a ...any) int {
		msg := fmt.Sprintf(format, a...)
		fmt.Printf("BROKEN: property=%s %s\n", id, msg)
		ev := evidence{PropertyID: id, Tier: tier, Seed: seed, Level: "model_checking", WallS: time.Since(t0).Seconds(),
			Coverage: map[string]any{"evaluations": 0, "distinct_nontrivial": 0, "explanation": "run unusable: " + msg}}
		writeJSON(filepath.Join(*evDir, id+".json"), ev)
		return 2
	}

	var overlay map[string][]byte
	var extra []string
	cliOverlayPath := filepath.Join(repoDir, "cmd", "pql", "zz_verif_c16.go")
	cliSrc := filepath.Join(harnessDir, "cli", "zz_verif_c16.go.txt")
	if spec.CLI {
		b, err := os.ReadFile(cliSrc)
		if err != nil {
			return broken("%v", err)
		}
		overlay = map[string][]byte{cliOverlayPath: b}
		extra = []string{repoModule + "/cmd/pql"}
	}
	e, err := loadEngine(repoDir, harnessDir, overlay, extra)
	if err != nil {
		return broken("cannot load the code under verification: %v", err)
	}
	e.seed = seed
	e.crossCheck = tier == "thorough" || os.Getenv("VERIF_CROSSCHECK") != ""
	var replayBin string
	if spec.CLI {
		replayBin, err = buildCLIReplay(repoDir, cliOverlayPath, cliSrc, buildDir)
	} else {
		replayBin, err = buildReplay(harnessDir, buildDir, spec.Threads)
	}
	if err != nil {
		return broken("%v", err)
	}
	defer os.Remove(replayBin)

	runs := spec.Quick
	if tier == "thorough" {
		// the quick runs first (so that a time cap drops the deepest runs only), then the deeper ones
		seenRun := map[string]bool{}
		runs = nil
		for _, r := range append(append([]RunSpec{}, spec.Quick...), spec.Thorough...) {
			k := fmt.Sprintf("%s%v", r.Harness, r.Args)
			if !seenRun[k] {
				seenRun[k] = true
				runs = append(runs, r)
			}
		}
	}
	{
		names := map[string]bool{}
		var list []string
		for _, r := range runs {
			if !names[r.Harness] {
				names[r.Harness] = true
				list = append(list, r.Harness)
			}
		}
		if spec.CLI {
			list = nil
		}
		if out, err := exec.Command(replayBin, "-has", strings.Join(list, ",")).CombinedOutput(); err != nil && len(list) > 0 {
			return broken("native replay registry incomplete: %s", strings.TrimSpace(string(out)))
		}
	}
	total := &RunStats{Outcomes: map[string]int{}, Covers: map[string]int{}, Unsupported: map[string]int{}}
	var perRun []map[string]any
	var allViol []*Violation
	violRun := map[*Violation]RunSpec{}
	var nativeViol []*Violation
	var violRunExtra []RunSpec
	validated, validateFail := 0, 0
	var validateMsgs []string
	inconclusive := 0
	// wall-clock cap: once reached, the run in progress stops taking new paths and the
	// remaining runs are skipped; the verdict then covers what was explored (reported)
	capS := 900
	if tier == "thorough" {
		capS = 3000
	}
	if v, err := strconv.Atoi(os.Getenv("VERIF_TIME_CAP_S")); err == nil && v > 0 {
		capS = v
	}
	deadline := t0.Add(time.Duration(capS) * time.Second)
	var skippedRuns []string
	timeCapped := false
	for _, rs := range runs {
		if time.Now().After(deadline) {
			timeCapped = true
			skippedRuns = append(skippedRuns, fmt.Sprintf("%s%v", rs.Harness, rs.Args))
			continue
		}
		fn := e.funcByName(harnessModule + "/h." + rs.Harness)
		if spec.CLI {
			fn = e.funcByName(repoModule + "/cmd/pql." + rs.Harness)
		}
		if fn == nil {
			return broken("harness %s not found", rs.Harness)
		}
		budget := rs.Budget
		if budget == 0 {
			budget = 400000
		}
		h := &HarnessRun{Name: rs.Harness, Fn: fn, Args: rs.Args, Budget: budget, SampleK: sampleK, MaxPaths: rs.MaxPaths, Deadline: deadline}
		if rs.CrossObs {
			h.SampleK, h.KeepAll = 1, true
		}
		st := e.explore(h, *workers)
		for round := 0; round < 6; round++ {
			// a shared location was seen written for the first time: accesses to it are
			// visible operations from now on, so the schedules must be explored again
			e.wmu.Lock()
			grew := e.writtenGrew
			e.writtenGrew = false
			e.wmu.Unlock()
			if !grew || !spec.Threads {
				break
			}
			h = &HarnessRun{Name: rs.Harness, Fn: fn, Args: rs.Args, Budget: budget, SampleK: sampleK, MaxPaths: rs.MaxPaths, Deadline: deadline}
			if rs.CrossObs {
				h.SampleK, h.KeepAll = 1, true
			}
			st = e.explore(h, *workers)
		}
		if rs.CrossObs {
			// every path starts from the process's initial state: observations under one label
			// (the result of one call) must not depend on which other calls the path made before
			firstVal := map[string]string{}
			firstIdx := map[string]int{}
			reported := map[string]bool{}
			for i, obs := range st.ValidateObs {
				if st.ValidateWant[i] != "ok" {
					continue
				}
				for _, o := range obs {
					k := strings.Index(o, "=")
					if k < 0 || strings.HasSuffix(o, "=?") {
						continue
					}
					label, val := o[:k], o[k+1:]
					if fv, ok := firstVal[label]; !ok {
						firstVal[label], firstIdx[label] = val, i
					} else if fv != val && !reported[label] {
						reported[label] = true
						st.Violations = append(st.Violations, &Violation{Kind: "history", Msg: "the result of a call depends on the calls made before it",
							Inputs: st.Validate[i], Other: st.Validate[firstIdx[label]], Label: label, Where: rs.Harness})
					}
				}
			}
		}
		inconclusive += h.inconclusive
		total.Paths += st.Paths
		total.Decisions += st.Decisions
		total.Steps += st.Steps
		total.Tainted += st.Tainted
		total.Unknowns += st.Unknowns
		total.Concretized += st.Concretized
		total.Solver.add(st.Solver)
		total.Truncated = total.Truncated || st.Truncated
		if st.TimedOut {
			timeCapped = true
			skippedRuns = append(skippedRuns, fmt.Sprintf("%s%v (partly explored)", rs.Harness, rs.Args))
		}
		for k, v := range st.Outcomes {
			total.Outcomes[k] += v
		}
		for k, v := range st.Covers {
			total.Covers[k] += v
		}
		for k, v := range st.Unsupported {
			total.Unsupported[k] += v
		}
		if len(total.Samples) < 16 {
			total.Samples = append(total.Samples, st.Samples...)
		}
		for _, v := range st.Violations {
			violRun[v] = rs
		}
		allViol = append(allViol, st.Violations...)
		perRun = append(perRun, map[string]any{
			"harness": rs.Harness, "args": rs.Args, "label": rs.Label, "paths": st.Paths, "decisions": st.Decisions,
			"outcomes": st.Outcomes, "wall_s": round3(st.Wall.Seconds()), "solver_queries": st.Solver.Queries,
			"solver_cache_hits": st.Solver.CacheHit, "truncated": st.Truncated, "max_decisions_on_a_path": st.MaxDecisions,
		})
		fmt.Printf("run %s%v: paths=%d outcomes=%v violations=%d wall=%.1fs\n", rs.Harness, rs.Args, st.Paths, st.Outcomes, len(st.Violations), st.Wall.Seconds())
		if rs.CrossObs && len(st.Validate) > 3 {
			// cross-path runs keep every path for the comparison; three of them are validated natively
			st.Validate, st.ValidateWant, st.ValidateObs = st.Validate[:3], st.ValidateWant[:3], st.ValidateObs[:3]
		}
		// native validation of sampled leaves
		for i, ins := range st.Validate {
			rf := &ReplayFile{Property: id, Harness: rs.Harness, Args: rs.Args, Inputs: ins, Expect: st.ValidateWant[i]}
			nr := runNative(replayBin, rf, buildDir, 20*time.Second)
			want := st.ValidateWant[i]
			ok := (want == "ok" && nr.Outcome == "passed") || (want == "panic" && nr.Outcome == "panic")
			if ok && want == "ok" {
				eo := st.ValidateObs[i]
				if len(eo) != len(nr.Obs) {
					ok = false
					nr.Msg = fmt.Sprintf("observation count engine=%d native=%d", len(eo), len(nr.Obs))
				} else {
					for k := range eo {
						if !strings.HasSuffix(eo[k], "=?") && eo[k] != nr.Obs[k] {
							ok = false
							nr.Msg = fmt.Sprintf("observation differs: engine %q native %q", eo[k], nr.Obs[k])
							break
						}
					}
				}
			}
			if !ok && spec.Threads && nr.Outcome == "assert" {
				// purity is this property's subject: a native run of the harness that fails an assertion
				// the engine's (deterministic) execution passes is itself a demonstration of a violation
				nativeViol = append(nativeViol, &Violation{Kind: "assert", Msg: nr.Msg, Inputs: ins, Where: "native run of " + rs.Harness})
				violRunExtra = append(violRunExtra, rs)
				continue
			}
			if ok {
				validated++
			} else {
				validateFail++
				if len(validateMsgs) < 5 {
					validateMsgs = append(validateMsgs, fmt.Sprintf("%s%v inputs=%s: engine=%s native=%s %s", rs.Harness, rs.Args, showInputs(ins), want, nr.Outcome, nr.Msg))
				}
			}
		}
	}

	for i, v := range nativeViol {
		violRun[v] = violRunExtra[i]
		allViol = append(allViol, v)
	}
	// ---- classify violations ------------------------------------------------
	findings := loadFindings(filepath.Join(verifDir, "known_findings.json"))
	seen := map[string]bool{}
	var confirmed, known, notReproduced, aborted []string
	exit := 0
	nConfirmed := 0
	replays := 0
	classCount := map[string]int{}
	var harnessPanics []string
	for _, v := range allViol {
		rs := violRun[v]
		key := violationKey(v) + "|" + rs.Harness + fmt.Sprint(rs.Args)
		if seen[key] {
			continue
		}
		seen[key] = true
		if v.Kind == "panic" && (strings.HasPrefix(v.Where, harnessModule+"/") || strings.HasPrefix(v.Where, "("+harnessModule+"/")) {
			harnessPanics = append(harnessPanics, fmt.Sprintf("%s in %s (%s%v)", v.Msg, v.Where, rs.Harness, rs.Args))
			continue
		}
		if (v.Kind == "panic" || v.Kind == "hang") && !spec.OwnsPanic {
			aborted = append(aborted, fmt.Sprintf("%s in %s on %s (owned by C12)", v.Kind, v.Where, showInputs(v.Inputs)))
			continue
		}
		if v.Inputs == nil {
			inconclusive++
			continue
		}
		class := v.Kind + "|" + v.Msg + "|" + v.Where
		classCount[class]++
		if classCount[class] > 3 || replays >= 60 {
			continue // further members of a class already replayed three times are only counted
		}
		replays++
		expect := v.Kind
		if v.Kind == "assert" {
			expect = "assert:" + v.Msg
		}
		rf := &ReplayFile{Property: id, Harness: rs.Harness, Args: rs.Args, Inputs: v.Inputs, Expect: expect, Note: v.Where, CompareWith: v.Other, Label: v.Label}
		timeout := 20 * time.Second
		if v.Kind == "hang" {
			timeout = 5 * time.Second
		}
		nr := runNative(replayBin, rf, buildDir, timeout)
		reproduced := false
		switch v.Kind {
		case "assert":
			reproduced = nr.Outcome == "assert" && nr.Msg == v.Msg
			if spec.Threads && !strings.HasPrefix(v.Msg, "data race") {
				// results that depend on map iteration order or history: natively the order is the
				// runtime's; any failed purity assertion in a few attempts confirms
				for try := 0; try < 8 && nr.Outcome != "assert"; try++ {
					nr = runNative(replayBin, rf, buildDir, timeout)
				}
				reproduced = nr.Outcome == "assert"
			}
			if strings.HasPrefix(v.Msg, "data race") {
				// natively the schedule is the Go scheduler's: the race detector confirms (several attempts)
				for try := 0; try < 5 && nr.Outcome != "race"; try++ {
					nr = runNative(replayBin, rf, buildDir, timeout)
				}
				reproduced = nr.Outcome == "race"
			}
		case "panic":
			reproduced = nr.Outcome == "panic"
		case "hang":
			reproduced = nr.Outcome == "hang"
		case "history":
			// two fresh native processes, one per call order: the observation must differ there too
			other := runNative(replayBin, &ReplayFile{Property: id, Harness: rs.Harness, Args: rs.Args, Inputs: v.Other}, buildDir, timeout)
			a, okA := obsValue(nr.Obs, v.Label)
			b, okB := obsValue(other.Obs, v.Label)
			reproduced = nr.Outcome == "passed" && other.Outcome == "passed" && okA && okB && a != b
			if reproduced {
				v.Msg += fmt.Sprintf(" (%s: %q after other calls, %q in a fresh process)", v.Label, clip(a, 120), clip(b, 120))
			}
		}
		rendered := showInputs(v.Inputs)
		if !reproduced {
			if v.Kind == "hang" && nr.Outcome == "passed" {
				inconclusive++ // step budget too small for this input: not a verdict
				notReproduced = append(notReproduced, fmt.Sprintf("budget exhausted but native run terminates: %s", rendered))
				continue
			}
			if v.Tainted {
				inconclusive++
				continue
			}
			notReproduced = append(notReproduced, fmt.Sprintf("%s %q on %s: native=%s %s", v.Kind, v.Msg, rendered, nr.Outcome, nr.Msg))
			continue
		}
		isKnown := false
		for i := range findings {
			if findings[i].matches(id, v, rendered, fmt.Sprintf("%s%v", rs.Harness, rs.Args)) {
				isKnown = true
				line := fmt.Sprintf("KNOWN-FINDING: property=%s %s", id, findings[i].What)
				if !contains(known, line) {
					known = append(known, line)
					fmt.Println(line)
				}
				break
			}
		}
		if isKnown {
			continue
		}
		nConfirmed++
		sum := sha1.Sum([]byte(key))
		path := filepath.Join(replayDir, fmt.Sprintf("%s-%x.json", id, sum[:6]))
		writeJSON(path, rf)
		line := fmt.Sprintf("VIOLATION property=%s replay=%s", id, path)
		fmt.Println(line)
		fmt.Printf("  %s: %s\n  input: %s\n  where: %s\n", v.Kind, v.Msg, rendered, v.Where)
		confirmed = append(confirmed, fmt.Sprintf("%s: %s on %s", v.Kind, v.Msg, rendered))
		exit = 1
	}

	for c, n := range classCount {
		if n > 3 {
			fmt.Printf("  (%d counterexamples in class %q; 3 replayed)\n", n, c)
		}
	}

	// ---- vacuity and usability ---------------------------------------------
	var missing []string
	for _, c := range spec.Covers {
		if total.Covers[c] == 0 {
			missing = append(missing, c)
		}
	}
	wall := time.Since(t0).Seconds()
	exhaustive := !total.Truncated && total.Outcomes["unsupported"] == 0 && total.Outcomes["solver"] == 0 && total.Unknowns == 0 && inconclusive == 0 && total.Outcomes["budget"] == 0
	var samples []any
	for _, s := range total.Samples {
		samples = append(samples, map[string]any{"outcome": s.Outcome, "witness": showInputs(s.Inputs), "path_condition": s.PathCond})
	}
	if len(samples) == 0 {
		samples = append(samples, "no path sampled")
	}
	var funcs []string
	e.funcsExecuted.Range(func(k, _ any) bool { funcs = append(funcs, k.(string)); return true })
	sort.Strings(funcs)
	intr := map[string]int64{}
	for i, n := range intrinsicNames {
		if i < len(intrinsicHits) {
			if c := intrinsicHits[i].Load(); c > 0 {
				intr[n] = c
			}
		}
	}
	cov := map[string]any{
		"states":                        total.Paths,
		"transitions":                   total.Decisions,
		"traces_validated_against_impl": validated,
		"samples":                       samples,
		"evaluations":                   total.Paths,
		"distinct_nontrivial":           total.Paths - total.Outcomes["assume"] - total.Outcomes["infeasible"],
		"rule":                          "one evaluation = one feasible path of the real code through the harness, identified by its decision sequence (distinct by construction); non-trivial = not ended by a false assumption; each path's assertions are decided for all inputs satisfying its path condition by SMT queries",
		"exhaustive":                    exhaustive,
		"bounds":                        spec.Bounds,
		"outside_the_claim":             spec.Outside,
		"runs":                          perRun,
		"path_outcomes":                 total.Outcomes,
		"ssa_instructions_executed":     total.Steps,
		"solver":                        map[string]any{"name": e.solverKind, "queries": total.Solver.Queries, "sat": total.Solver.Sat, "unsat": total.Solver.Unsat, "unknown": total.Solver.Unknown, "errors": total.Solver.Errors, "cache_hits": total.Solver.CacheHit, "wall_s": round3(total.Solver.Wall.Seconds())},
		"tier_composition":              "thorough = the quick tier's runs followed by the deeper thorough runs",
		"time_cap":                      map[string]any{"seconds": capS, "reached": timeCapped, "runs_not_or_partly_explored": limitStrings(skippedRuns, 40)},
		"inconclusive":                  inconclusive,
		"tainted_paths":                 total.Tainted,
		"concretisations":               total.Concretized,
		"unsupported":                   total.Unsupported,
		"cover_labels":                  total.Covers,
		"functions_encoded":             funcs,
		"library_models_hit":            intr,
		"stubs":                         spec.Stubs,
		"violations_confirmed":          confirmed,
		"known_findings_seen":           known,
		"aborted_paths_owned_elsewhere": limitStrings(aborted, 10),
		"validation_failures":           validateMsgs,
		"not_reproduced":                limitStrings(notReproduced, 10),
		"cross_check":                   map[string]any{"enabled": e.crossCheck, "assertion_queries_repeated_with_z3_5": e.crossQueries, "of_which_also_cvc5": e.crossCVC5, "disagreements": e.disagreements},
		"branch_feasibility_presolvers": map[string]any{"decided_by_single_byte_truth_tables": e.fastDecided, "note": "branch feasibility only; every assertion that does not fold to a constant is decided by z3"},
		"encoding":                      "regenerated from the repository's current source on this run (go/packages + go/ssa, x/tools v0.29.0)",
	}
	ev := evidence{PropertyID: id, Tier: tier, Seed: seed, Level: "model_checking", Coverage: cov,
		Assumptions: append([]string{"bounded: every verdict is for inputs within the stated bounds only"}, spec.Assume...),
		WallS:       round3(wall), Violations: nConfirmed}
	writeJSON(filepath.Join(*evDir, id+".json"), ev)

	fmt.Printf("property=%s tier=%s paths=%d decisions=%d outcomes=%v solver_queries=%d validated=%d exhaustive=%v wall=%.1fs\n",
		id, tier, total.Paths, total.Decisions, total.Outcomes, total.Solver.Queries, validated, exhaustive, wall)
	for m, n := range total.Unsupported {
		fmt.Printf("  unsupported x%d: %s\n", n, m)
	}
	for _, a := range limitStrings(aborted, 5) {
		fmt.Printf("  aborted: %s\n", a)
	}
	if len(harnessPanics) > 0 {
		fmt.Printf("BROKEN: property=%s the harness itself panicked: %v\n", id, limitStrings(harnessPanics, 3))
		return 2
	}
	if len(e.disagreements) > 0 {
		fmt.Printf("BROKEN: property=%s solvers disagree on %d assertion queries: %v\n", id, len(e.disagreements), limitStrings(e.disagreements, 3))
		return 2
	}
	if validateFail > 0 {
		fmt.Printf("BROKEN: property=%s engine and native run disagree on %d sampled paths: %v\n", id, validateFail, validateMsgs)
		return 2
	}
	if len(notReproduced) > 0 && exit == 0 {
		for _, n := range limitStrings(notReproduced, 5) {
			fmt.Printf("  not reproduced: %s\n", n)
		}
		hard := false
		for _, n := range notReproduced {
			if !strings.HasPrefix(n, "budget exhausted") {
				hard = true
			}
		}
		if hard {
			fmt.Printf("BROKEN: property=%s %d counterexamples did not reproduce natively (engine or oracle fault)\n", id, len(notReproduced))
			return 2
		}
	}
	if timeCapped {
		fmt.Printf("NOTE: property=%s time cap of %d s reached: %d runs not or only partly explored (verdict covers what was explored; VERIF_TIME_CAP_S raises the cap)\n", id, capS, len(skippedRuns))
	}
	if len(missing) > 0 && exit == 0 && !timeCapped {
		fmt.Printf("BROKEN: property=%s vacuous run, cover labels not reached: %v\n", id, missing)
		return 2
	}
	return exit
}

func contains(l []string, s string) bool {
	for _, x := range l {
		if x == s {
			return true
		}
	}
	return false
}

func limitStrings(l []string, n int) []string {
	if len(l) > n {
		return append(append([]string{}, l[:n]...), fmt.Sprintf("… %d more", len(l)-n))
	}
	if l == nil {
		return []string{}
	}
	return l
}

func round3(f float64) float64 { return float64(int64(f*1000+0.5)) / 1000 }

func writeJSON(path string, v any) {
	b, err := json.MarshalIndent(v, "", " ")
	if err != nil {
		fmt.Fprintln(os.Stderr, "marshal:", err)
		return
	}
	os.WriteFile(path, append(b, '\n'), 0o644)
}

// cmdReplay runs a replay file natively against the repository's current tree.
// Exit 1 (with a VIOLATION line) if the recorded violation reproduces, 0 if the harness passes.
func cmdReplay(argv []string) int {
	if len(argv) != 1 {
		fmt.Fprintln(os.Stderr, "usage: gosym replay <file>")
		return 2
	}
	verifDir := envOr("VERIF_DIR", "/verif")
	buildDir := filepath.Join(verifDir, ".build")
	os.MkdirAll(buildDir, 0o755)
	if b, err := os.ReadFile(filepath.Join(envOr("VERIF_REPO", "/repo"), "go.sum")); err == nil {
		os.WriteFile(filepath.Join(verifDir, "harness", "go.sum"), b, 0o644)
	}
	bin, err := buildReplay(filepath.Join(verifDir, "harness"), buildDir, strings.Contains(argv[0], "C14"))
	if err != nil {
		fmt.Println("BROKEN:", err)
		return 2
	}
	defer os.Remove(bin)
	var rf ReplayFile
	b, err := os.ReadFile(argv[0])
	if err != nil {
		fmt.Println("BROKEN:", err)
		return 2
	}
	json.Unmarshal(b, &rf)
	timeout := 20 * time.Second
	if rf.Expect == "hang" {
		timeout = 5 * time.Second
	}
	nr := runNativeFile(bin, argv[0], timeout)
	fmt.Printf("replay %s: harness=%s%v input=%s\n  native outcome: %s %s\n", argv[0], rf.Harness, rf.Args, showInputs(rf.Inputs), nr.Outcome, nr.Msg)
	if rf.CompareWith != nil {
		other := runNative(bin, &ReplayFile{Property: rf.Property, Harness: rf.Harness, Args: rf.Args, Inputs: rf.CompareWith}, buildDir, timeout)
		a, okA := obsValue(nr.Obs, rf.Label)
		b, okB := obsValue(other.Obs, rf.Label)
		fmt.Printf("  compared with a fresh process on input=%s\n  %s here:  %q\n  %s there: %q\n", showInputs(rf.CompareWith), rf.Label, a, rf.Label, b)
		if okA && okB && a != b {
			fmt.Printf("VIOLATION property=%s replay=%s\n", rf.Property, argv[0])
			return 1
		}
		return 0
	}
	switch nr.Outcome {
	case "passed", "assume":
		return 0
	case "assert", "panic", "hang", "race":
		fmt.Printf("VIOLATION property=%s replay=%s\n", rf.Property, argv[0])
		return 1
	}
	fmt.Println(nr.Out)
	return 2
}
