package main

// Models of library functions (the trusted base; each is listed in the evidence).

import (
	"fmt"
	"go/token"
	"go/types"
	"strconv"
	"strings"
	"sync/atomic"

	"golang.org/x/tools/go/ssa"
)

var intrinsicHits [64]atomic.Int64
var intrinsicNames []string

func registerIntrinsics(e *Engine) {
	reg := func(name string, h intrinsic) {
		idx := len(intrinsicNames)
		intrinsicNames = append(intrinsicNames, name)
		e.intrinsics[name] = func(ex *Exec, fn *ssa.Function, args []Value) Value {
			if idx < len(intrinsicHits) {
				intrinsicHits[idx].Add(1)
			}
			return h(ex, fn, args)
		}
	}
	// ---- strings.Builder -------------------------------------------------
	bufField := -1
	if sp := e.byPath["strings"]; sp != nil {
		st := sp.Pkg.Scope().Lookup("Builder").Type().Underlying().(*types.Struct)
		for i := 0; i < st.NumFields(); i++ {
			if st.Field(i).Name() == "buf" {
				bufField = i
			}
		}
	}
	builderBuf := func(ex *Exec, recv Value) *Value {
		p := recv.(Ptr)
		if p == nil {
			panic(ex.rtPanic("invalid memory address or nil pointer dereference"))
		}
		s := (*p).(Struct)
		return &s[bufField]
	}
	appendBytes := func(ex *Exec, recv Value, bs []Value) {
		bp := builderBuf(ex, recv)
		ex.noteWrite(recv.(Ptr))
		cur, _ := (*bp).(Slice)
		ex.steps += len(bs) // one step per byte written
		if ex.steps > ex.budget {
			panic(pathEnd{kind: "budget", msg: "step budget exhausted in strings.Builder (text built by the path)"})
		}
		*bp = append(cur, bs...)
	}
	reg("(*strings.Builder).WriteString", func(ex *Exec, fn *ssa.Function, a []Value) Value {
		bs := ex.strBytes(a[1])
		appendBytes(ex, a[0], bs)
		return Tuple{int64(len(bs)), Iface{}}
	})
	reg("(*strings.Builder).WriteByte", func(ex *Exec, fn *ssa.Function, a []Value) Value {
		appendBytes(ex, a[0], []Value{a[1]})
		return Iface{}
	})
	reg("(*strings.Builder).WriteRune", func(ex *Exec, fn *ssa.Function, a []Value) Value {
		bs := ex.encodeRune(a[1])
		appendBytes(ex, a[0], bs)
		return Tuple{int64(len(bs)), Iface{}}
	})
	reg("(*strings.Builder).Write", func(ex *Exec, fn *ssa.Function, a []Value) Value {
		s, _ := a[1].(Slice)
		appendBytes(ex, a[0], append([]Value{}, s...))
		return Tuple{int64(len(s)), Iface{}}
	})
	reg("(*strings.Builder).String", func(ex *Exec, fn *ssa.Function, a []Value) Value {
		bp := builderBuf(ex, a[0])
		ex.noteRead(a[0].(Ptr))
		cur, _ := (*bp).(Slice)
		return ex.mkStr(append([]Value{}, cur...))
	})
	reg("(*strings.Builder).Len", func(ex *Exec, fn *ssa.Function, a []Value) Value {
		cur, _ := (*builderBuf(ex, a[0])).(Slice)
		return int64(len(cur))
	})
	reg("(*strings.Builder).Cap", func(ex *Exec, fn *ssa.Function, a []Value) Value {
		cur, _ := (*builderBuf(ex, a[0])).(Slice)
		return int64(cap(cur))
	})
	reg("(*strings.Builder).Grow", func(ex *Exec, fn *ssa.Function, a []Value) Value {
		neg := ex.binop(token.LSS, types.Typ[types.Int], a[1], int64(0))
		if ex.branch(neg) {
			panic(&goPanic{val: Iface{T: types.Typ[types.String], V: "strings.Builder.Grow: negative count"}})
		}
		builderBuf(ex, a[0])
		return nil
	})
	reg("(*strings.Builder).Reset", func(ex *Exec, fn *ssa.Function, a []Value) Value {
		bp := builderBuf(ex, a[0])
		*bp = Slice(nil)
		return nil
	})
	// ---- utf8 / unicode ----------------------------------------------------
	reg("unicode/utf8.DecodeRuneInString", func(ex *Exec, fn *ssa.Function, a []Value) Value {
		r, n := ex.decodeRune(a[0], 0)
		return Tuple{r, int64(n)}
	})
	reg("unicode/utf8.DecodeRune", func(ex *Exec, fn *ssa.Function, a []Value) Value {
		s, _ := a[0].(Slice)
		r, n := ex.decodeRune(ex.mkStr(append([]Value{}, s...)), 0)
		return Tuple{r, int64(n)}
	})
	reg("unicode/utf8.RuneLen", func(ex *Exec, fn *ssa.Function, a []Value) Value {
		return int64(len(ex.encodeRune(a[0])))
	})
	reg("unicode/utf8.AppendRune", func(ex *Exec, fn *ssa.Function, a []Value) Value {
		s, _ := a[0].(Slice)
		return append(s, ex.encodeRune(a[1])...)
	})
	e.redirects["unicode.IsSpace"] = harnessModule + "/models.IsSpace"

	// ---- strings / strconv with native fast path, model otherwise --------
	model := func(name, target string) {
		reg(name, func(ex *Exec, fn *ssa.Function, a []Value) Value {
			if r, ok := nativeCall(name, a); ok {
				return r
			}
			m := ex.eng.funcByName(harnessModule + "/models." + target)
			if m == nil {
				panic(ex.unsupported("model missing: " + target))
			}
			for i := range a {
				if s, isStr := a[i].(*LazyStr); isStr {
					a[i] = ex.forceStr(s)
				}
			}
			return ex.invoke(m, a, nil, nil)
		})
	}
	model("strings.ContainsAny", "ContainsAny")
	model("strings.Count", "Count")
	model("strings.Join", "Join")
	model("strings.ReplaceAll", "ReplaceAll")
	model("strings.TrimLeft", "TrimLeft")
	model("strings.HasPrefix", "HasPrefix")
	model("strings.HasSuffix", "HasSuffix")
	model("strings.Index", "Index")
	model("strconv.ParseUint", "ParseUint")
	model("strconv.FormatUint", "FormatUint")
	for _, n := range []string{"strings.Contains", "strings.Repeat", "strings.ToLower", "strings.ToUpper", "strings.TrimSpace",
		"strings.Split", "strings.Fields", "strings.TrimPrefix", "strings.TrimSuffix", "strings.TrimRight", "strings.Trim",
		"strings.IndexByte", "strings.LastIndex", "strings.EqualFold", "strings.Compare", "strings.IndexAny", "strings.ContainsRune", "strings.IndexRune",
		"strings.SplitN", "strings.TrimFunc", "strings.LastIndexByte", "strings.Cut",
		"strconv.Itoa", "strconv.Atoi", "strconv.FormatInt", "strconv.ParseFloat", "strconv.Quote", "strconv.ParseInt"} {
		name := n
		reg(name, func(ex *Exec, fn *ssa.Function, a []Value) Value {
			for i := range a {
				if s, isStr := a[i].(*LazyStr); isStr {
					a[i] = ex.forceStr(s)
				}
			}
			if r, ok := nativeCall(name, a); ok {
				return r
			}
			// symbolic argument: interpret the library's own source (its leaf routines are modelled below)
			return ex.invoke(fn, a, nil, nil)
		})
	}
	// strings.Replacer: the lazily built matching machine is bypassed; the pairs are applied by a plain-Go model
	replacerPairs := func(ex *Exec, recv Value) Value {
		p := recv.(Ptr)
		if p == nil {
			panic(ex.rtPanic("invalid memory address or nil pointer dereference"))
		}
		st := (*p).(Struct)
		return st[len(st)-1] // oldnew []string is the last field
	}
	reg("(*strings.Replacer).Replace", func(ex *Exec, fn *ssa.Function, a []Value) Value {
		m := ex.eng.funcByName(harnessModule + "/models.ReplacerReplace")
		return ex.invoke(m, []Value{replacerPairs(ex, a[0]), a[1]}, nil, nil)
	})
	reg("(*strings.Replacer).WriteString", func(ex *Exec, fn *ssa.Function, a []Value) Value {
		m := ex.eng.funcByName(harnessModule + "/models.ReplacerReplace")
		s := ex.invoke(m, []Value{replacerPairs(ex, a[0]), a[2]}, nil, nil)
		r := ex.writeTo(a[1], s)
		return r
	})
	reg("bytes.IndexByte", func(ex *Exec, fn *ssa.Function, a []Value) Value {
		s, _ := a[0].(Slice)
		for i, b := range s {
			if ex.branch(ex.byteEq(b, a[1])) {
				return int64(i)
			}
		}
		return int64(-1)
	})
	// ---- internal/bytealg: the assembly leaves of strings/bytes, over concrete-or-symbolic bytes ----
	byteSlice := func(ex *Exec, v Value) []Value {
		switch x := v.(type) {
		case Slice:
			return x
		default:
			return ex.strBytes(ex.forceStr(x))
		}
	}
	indexByte := func(ex *Exec, bs []Value, c Value) Value {
		for i, b := range bs {
			if ex.branch(ex.byteEq(b, c)) {
				return int64(i)
			}
		}
		return int64(-1)
	}
	reg("internal/bytealg.IndexByteString", func(ex *Exec, fn *ssa.Function, a []Value) Value {
		return indexByte(ex, byteSlice(ex, a[0]), a[1])
	})
	reg("internal/bytealg.IndexByte", func(ex *Exec, fn *ssa.Function, a []Value) Value {
		return indexByte(ex, byteSlice(ex, a[0]), a[1])
	})
	countByte := func(ex *Exec, bs []Value, c Value) Value {
		n := 0
		for _, b := range bs {
			if ex.branch(ex.byteEq(b, c)) {
				n++
			}
		}
		return int64(n)
	}
	reg("internal/bytealg.CountString", func(ex *Exec, fn *ssa.Function, a []Value) Value {
		return countByte(ex, byteSlice(ex, a[0]), a[1])
	})
	reg("internal/bytealg.Count", func(ex *Exec, fn *ssa.Function, a []Value) Value {
		return countByte(ex, byteSlice(ex, a[0]), a[1])
	})
	indexSub := func(ex *Exec, hay, needle []Value) Value {
		for i := 0; i+len(needle) <= len(hay); i++ {
			var eq Value = true
			for j := range needle {
				eq = ex.andVal(eq, ex.byteEq(hay[i+j], needle[j]))
				if eq == false {
					break
				}
			}
			if ex.branch(eq) {
				return int64(i)
			}
		}
		return int64(-1)
	}
	reg("internal/bytealg.IndexString", func(ex *Exec, fn *ssa.Function, a []Value) Value {
		return indexSub(ex, byteSlice(ex, a[0]), byteSlice(ex, a[1]))
	})
	reg("internal/bytealg.Index", func(ex *Exec, fn *ssa.Function, a []Value) Value {
		return indexSub(ex, byteSlice(ex, a[0]), byteSlice(ex, a[1]))
	})
	reg("internal/bytealg.Equal", func(ex *Exec, fn *ssa.Function, a []Value) Value {
		x, y := byteSlice(ex, a[0]), byteSlice(ex, a[1])
		if len(x) != len(y) {
			return false
		}
		var eq Value = true
		for i := range x {
			eq = ex.andVal(eq, ex.byteEq(x[i], y[i]))
		}
		return eq
	})
	reg("internal/bytealg.Compare", func(ex *Exec, fn *ssa.Function, a []Value) Value {
		x, y := byteSlice(ex, a[0]), byteSlice(ex, a[1])
		for i := 0; i < len(x) && i < len(y); i++ {
			if ex.branch(ex.byteEq(x[i], y[i])) {
				continue
			}
			lt := ex.binop(token.LSS, types.Typ[types.Uint8], x[i], y[i])
			if ex.branch(lt) {
				return int64(-1)
			}
			return int64(1)
		}
		switch {
		case len(x) < len(y):
			return int64(-1)
		case len(x) > len(y):
			return int64(1)
		}
		return int64(0)
	})
	reg("internal/bytealg.CompareString", func(ex *Exec, fn *ssa.Function, a []Value) Value {
		return ex.eng.intrinsics["internal/bytealg.Compare"](ex, fn, a)
	})
	// cloning a string is the identity on values
	reg("internal/stringslite.Clone", func(ex *Exec, fn *ssa.Function, a []Value) Value { return a[0] })
	reg("strings.Clone", func(ex *Exec, fn *ssa.Function, a []Value) Value { return a[0] })
	reg("internal/bytealg.MakeNoZero", func(ex *Exec, fn *ssa.Function, a []Value) Value {
		n := ex.concreteInt(a[0], types.Typ[types.Int])
		s := make(Slice, n)
		for i := range s {
			s[i] = int64(0)
		}
		return s
	})
	// ---- fmt ---------------------------------------------------------------
	reg("fmt.Sprintf", func(ex *Exec, fn *ssa.Function, a []Value) Value {
		return ex.sprintf(a[0], a[1])
	})
	reg("fmt.Sprint", func(ex *Exec, fn *ssa.Function, a []Value) Value {
		return ex.sprintln(a[0], false)
	})
	reg("fmt.Errorf", func(ex *Exec, fn *ssa.Function, a []Value) Value {
		return ex.errorf(a[0], a[1])
	})
	reg("fmt.Fprintf", func(ex *Exec, fn *ssa.Function, a []Value) Value {
		s := ex.sprintf(a[1], a[2])
		return ex.writeTo(a[0], s)
	})
	reg("fmt.Fprintln", func(ex *Exec, fn *ssa.Function, a []Value) Value {
		s := ex.sprintln(a[1], true)
		return ex.writeTo(a[0], s)
	})
	reg("fmt.Fprint", func(ex *Exec, fn *ssa.Function, a []Value) Value {
		s := ex.sprintln(a[1], false)
		return ex.writeTo(a[0], s)
	})
	// ---- errors ------------------------------------------------------------
	reg("errors.As", func(ex *Exec, fn *ssa.Function, a []Value) Value {
		return ex.errorsAs(a[0].(Iface), a[1].(Iface))
	})
	reg("errors.Is", func(ex *Exec, fn *ssa.Function, a []Value) Value {
		return ex.errorsIs(a[0].(Iface), a[1].(Iface))
	})
	reg("(*errors.joinError).Error", func(ex *Exec, fn *ssa.Function, a []Value) Value {
		p := a[0].(Ptr)
		errs := (*p).(Struct)[0]
		m := ex.eng.funcByName(harnessModule + "/models.JoinErrorText")
		return ex.invoke(m, []Value{errs}, nil, nil)
	})
	// ---- sync ---------------------------------------------------------------
	reg("(*sync.Once).Do", func(ex *Exec, fn *ssa.Function, a []Value) Value {
		return ex.onceDo(a[0].(Ptr), a[1])
	})
	reg("(*sync.Mutex).Lock", func(ex *Exec, fn *ssa.Function, a []Value) Value { return ex.mutexOp(a[0].(Ptr), true) })
	reg("(*sync.Mutex).Unlock", func(ex *Exec, fn *ssa.Function, a []Value) Value { return ex.mutexOp(a[0].(Ptr), false) })
	reg("(*sync.RWMutex).Lock", func(ex *Exec, fn *ssa.Function, a []Value) Value { return ex.mutexOp(a[0].(Ptr), true) })
	reg("(*sync.RWMutex).Unlock", func(ex *Exec, fn *ssa.Function, a []Value) Value { return ex.mutexOp(a[0].(Ptr), false) })
	reg("(*sync.RWMutex).RLock", func(ex *Exec, fn *ssa.Function, a []Value) Value { return ex.mutexOp(a[0].(Ptr), true) })
	reg("(*sync.RWMutex).RUnlock", func(ex *Exec, fn *ssa.Function, a []Value) Value { return ex.mutexOp(a[0].(Ptr), false) })

	// ---- sort.Slice / SliceStable (reflection-based in the library) ------------------
	sortSlice := func(ex *Exec, fn *ssa.Function, a []Value) Value {
		itf, _ := a[0].(Iface)
		sl, ok := itf.V.(Slice)
		if !ok {
			panic(ex.unsupported("sort.Slice of non-slice"))
		}
		less := a[1]
		// insertion sort (stable), elements swapped in place so that the closure sees them
		for i := 1; i < len(sl); i++ {
			for j := i; j > 0; j-- {
				r := ex.call(less, []Value{int64(j), int64(j - 1)}, nil)
				if !ex.branch(r) {
					break
				}
				sl[j], sl[j-1] = sl[j-1], sl[j]
			}
		}
		return nil
	}
	reg("sort.Slice", sortSlice)
	reg("sort.SliceStable", sortSlice)
	// ---- sync.Pool: a per-execution free list (Get may also return a fresh value) ----
	reg("(*sync.Pool).Get", func(ex *Exec, fn *ssa.Function, a []Value) Value {
		p := a[0].(Ptr)
		ex.noteWrite(p)
		if l := ex.pools[p]; len(l) > 0 {
			v := l[len(l)-1]
			ex.pools[p] = l[:len(l)-1]
			return v
		}
		st := (*p).(Struct)
		newFn := st[len(st)-1]
		if isNilVal(newFn) || fnIsNil(newFn) {
			return Iface{}
		}
		if f, ok := newFn.(*ssa.Function); ok && f == nil {
			return Iface{}
		}
		return ex.call(newFn, nil, nil)
	})
	reg("(*sync.Pool).Put", func(ex *Exec, fn *ssa.Function, a []Value) Value {
		p := a[0].(Ptr)
		ex.noteWrite(p)
		if ex.pools == nil {
			ex.pools = map[Ptr][]Value{}
		}
		ex.pools[p] = append(ex.pools[p], a[1])
		return nil
	})
	// ---- sync.Map: a map whose operations are atomic visible operations --------------------
	// (the library's implementation rests on unsafe atomic pointers; the model keeps the
	// contents in an engine map per sync.Map value, one per execution)
	smap := func(ex *Exec, recv Value, write bool) *Map {
		p := recv.(Ptr)
		if p == nil {
			panic(ex.rtPanic("invalid memory address or nil pointer dereference"))
		}
		ex.atomicOp(p)
		if write {
			ex.noteSyncWrite(p)
		}
		if ex.syncMaps == nil {
			ex.syncMaps = map[Ptr]*Map{}
		}
		m := ex.syncMaps[p]
		if m == nil {
			m = newMap()
			ex.syncMaps[p] = m
		}
		return m
	}
	reg("(*sync.Map).Load", func(ex *Exec, fn *ssa.Function, a []Value) Value {
		m := smap(ex, a[0], false)
		if v, ok := ex.mapLookup(m, a[1]); ok {
			return Tuple{v, true}
		}
		return Tuple{Iface{}, false}
	})
	reg("(*sync.Map).Store", func(ex *Exec, fn *ssa.Function, a []Value) Value {
		ex.mapUpdate(smap(ex, a[0], true), a[1], a[2])
		return nil
	})
	reg("(*sync.Map).LoadOrStore", func(ex *Exec, fn *ssa.Function, a []Value) Value {
		m := smap(ex, a[0], true)
		if v, ok := ex.mapLookup(m, a[1]); ok {
			return Tuple{v, true}
		}
		ex.mapUpdate(m, a[1], a[2])
		return Tuple{a[2], false}
	})
	reg("(*sync.Map).LoadAndDelete", func(ex *Exec, fn *ssa.Function, a []Value) Value {
		m := smap(ex, a[0], true)
		if v, ok := ex.mapLookup(m, a[1]); ok {
			ex.mapDelete(m, a[1])
			return Tuple{v, true}
		}
		return Tuple{Iface{}, false}
	})
	reg("(*sync.Map).Delete", func(ex *Exec, fn *ssa.Function, a []Value) Value {
		ex.mapDelete(smap(ex, a[0], true), a[1])
		return nil
	})
	reg("(*sync.Map).Swap", func(ex *Exec, fn *ssa.Function, a []Value) Value {
		m := smap(ex, a[0], true)
		old, ok := ex.mapLookup(m, a[1])
		ex.mapUpdate(m, a[1], a[2])
		if ok {
			return Tuple{old, true}
		}
		return Tuple{Iface{}, false}
	})
	reg("(*sync.Map).Range", func(ex *Exec, fn *ssa.Function, a []Value) Value {
		m := smap(ex, a[0], false)
		entries := append([]*MapEntry{}, m.entries...)
		for _, e := range entries {
			if e == nil || e.dead {
				continue
			}
			if !ex.branch(ex.call(a[1], []Value{e.K, e.V}, nil)) {
				break
			}
		}
		return nil
	})
	reg("(*sync.Map).Clear", func(ex *Exec, fn *ssa.Function, a []Value) Value {
		p := a[0].(Ptr)
		smap(ex, a[0], true)
		ex.syncMaps[p] = newMap()
		return nil
	})
	// ---- sync/atomic typed values: sequentially consistent accesses (visible operations) ----
	atomicField := func(ex *Exec, recv Value) *Value {
		p := recv.(Ptr)
		if p == nil {
			panic(ex.rtPanic("invalid memory address or nil pointer dereference"))
		}
		st := (*p).(Struct)
		return &st[len(st)-1]
	}
	// atomic.Pointer[T]: the pointer is kept in the struct's last field
	reg("(*sync/atomic.Pointer[T]).Load", func(ex *Exec, fn *ssa.Function, a []Value) Value {
		ex.atomicOp(a[0].(Ptr))
		f := atomicField(ex, a[0])
		if p, ok := (*f).(Ptr); ok {
			return p
		}
		return Ptr(nil)
	})
	reg("(*sync/atomic.Pointer[T]).Store", func(ex *Exec, fn *ssa.Function, a []Value) Value {
		ex.atomicOp(a[0].(Ptr))
		ex.noteSyncWrite(a[0].(Ptr))
		*atomicField(ex, a[0]) = a[1]
		return nil
	})
	reg("(*sync/atomic.Pointer[T]).Swap", func(ex *Exec, fn *ssa.Function, a []Value) Value {
		ex.atomicOp(a[0].(Ptr))
		ex.noteSyncWrite(a[0].(Ptr))
		f := atomicField(ex, a[0])
		old, _ := (*f).(Ptr)
		*f = a[1]
		return old
	})
	reg("(*sync/atomic.Pointer[T]).CompareAndSwap", func(ex *Exec, fn *ssa.Function, a []Value) Value {
		ex.atomicOp(a[0].(Ptr))
		f := atomicField(ex, a[0])
		cur, _ := (*f).(Ptr)
		want, _ := a[1].(Ptr)
		if cur == want {
			ex.noteSyncWrite(a[0].(Ptr))
			*f = a[2]
			return true
		}
		return false
	})
	// maps.clone (linked to the runtime): a shallow copy
	reg("maps.clone", func(ex *Exec, fn *ssa.Function, a []Value) Value {
		itf, ok := a[0].(Iface)
		if !ok {
			panic(ex.unsupported("maps.clone of a non-interface value"))
		}
		m, _ := itf.V.(*Map)
		if m == nil {
			return itf
		}
		ex.noteMap(m, false)
		c := newMap()
		for _, e := range m.entries {
			if e != nil && !e.dead {
				ex.mapUpdate(c, e.K, copyVal(e.V))
			}
		}
		return Iface{T: itf.T, V: c}
	})
	for _, tn := range []string{"Int32", "Int64", "Uint32", "Uint64", "Bool", "Uintptr"} {
		tname := tn
		reg("(*sync/atomic."+tname+").Load", func(ex *Exec, fn *ssa.Function, a []Value) Value {
			ex.atomicOp(a[0].(Ptr))
			f := atomicField(ex, a[0])
			if tname == "Bool" {
				return (*f).(int64) != 0
			}
			return *f
		})
		reg("(*sync/atomic."+tname+").Store", func(ex *Exec, fn *ssa.Function, a []Value) Value {
			ex.atomicOp(a[0].(Ptr))
			f := atomicField(ex, a[0])
			if tname == "Bool" {
				if a[1].(bool) {
					*f = int64(1)
				} else {
					*f = int64(0)
				}
				return nil
			}
			*f = a[1]
			return nil
		})
		reg("(*sync/atomic."+tname+").Add", func(ex *Exec, fn *ssa.Function, a []Value) Value {
			ex.atomicOp(a[0].(Ptr))
			f := atomicField(ex, a[0])
			*f = ex.binop(token.ADD, fn.Signature.Params().At(0).Type(), *f, a[1])
			return *f
		})
		reg("(*sync/atomic."+tname+").CompareAndSwap", func(ex *Exec, fn *ssa.Function, a []Value) Value {
			ex.atomicOp(a[0].(Ptr))
			f := atomicField(ex, a[0])
			cur := *f
			if tname == "Bool" {
				cur = cur.(int64) != 0
			}
			if ex.branch(ex.equal(cur, a[1])) {
				if tname == "Bool" {
					if a[2].(bool) {
						*f = int64(1)
					} else {
						*f = int64(0)
					}
				} else {
					*f = a[2]
				}
				return true
			}
			return false
		})
	}
	registerVerif(e, reg)
	registerTok(e, reg)
	registerVal(e, reg)
	registerPar(e, reg)
}

func concStr(v Value) (string, bool) { s, ok := v.(string); return s, ok }

// nativeCall runs the real library function when every argument is concrete.
func nativeCall(name string, a []Value) (Value, bool) {
	strs := make([]string, 0, len(a))
	ints := make([]int64, 0, len(a))
	var list []string
	for _, v := range a {
		switch v := v.(type) {
		case string:
			strs = append(strs, v)
		case int64:
			ints = append(ints, v)
		case Slice:
			for _, e := range v {
				s, ok := e.(string)
				if !ok {
					return nil, false
				}
				list = append(list, s)
			}
		default:
			return nil, false
		}
	}
	strSlice := func(l []string) Value {
		r := make(Slice, len(l))
		for i, s := range l {
			r[i] = s
		}
		return r
	}
	numErr := func(err error) Value {
		if err == nil {
			return Iface{}
		}
		// the dynamic type is irrelevant to the code under test (only err != nil is used)
		return Iface{T: types.Typ[types.String], V: err.Error()}
	}
	switch name {
	case "strings.ContainsAny":
		return strings.ContainsAny(strs[0], strs[1]), true
	case "strings.Contains":
		return strings.Contains(strs[0], strs[1]), true
	case "strings.Count":
		return int64(strings.Count(strs[0], strs[1])), true
	case "strings.Join":
		return strings.Join(list, strs[0]), true
	case "strings.ReplaceAll":
		return strings.ReplaceAll(strs[0], strs[1], strs[2]), true
	case "strings.TrimLeft":
		return strings.TrimLeft(strs[0], strs[1]), true
	case "strings.TrimRight":
		return strings.TrimRight(strs[0], strs[1]), true
	case "strings.Trim":
		return strings.Trim(strs[0], strs[1]), true
	case "strings.TrimPrefix":
		return strings.TrimPrefix(strs[0], strs[1]), true
	case "strings.TrimSuffix":
		return strings.TrimSuffix(strs[0], strs[1]), true
	case "strings.TrimSpace":
		return strings.TrimSpace(strs[0]), true
	case "strings.HasPrefix":
		return strings.HasPrefix(strs[0], strs[1]), true
	case "strings.HasSuffix":
		return strings.HasSuffix(strs[0], strs[1]), true
	case "strings.Index":
		return int64(strings.Index(strs[0], strs[1])), true
	case "strings.LastIndex":
		return int64(strings.LastIndex(strs[0], strs[1])), true
	case "strings.IndexByte":
		return int64(strings.IndexByte(strs[0], byte(ints[0]))), true
	case "strings.Repeat":
		if ints[0] < 0 {
			return nil, false
		}
		return strings.Repeat(strs[0], int(ints[0])), true
	case "strings.ToLower":
		return strings.ToLower(strs[0]), true
	case "strings.ToUpper":
		return strings.ToUpper(strs[0]), true
	case "strings.Split":
		return strSlice(strings.Split(strs[0], strs[1])), true
	case "strings.Fields":
		return strSlice(strings.Fields(strs[0])), true
	case "strings.EqualFold":
		return strings.EqualFold(strs[0], strs[1]), true
	case "strings.Compare":
		return int64(strings.Compare(strs[0], strs[1])), true
	case "strconv.Itoa":
		return strconv.Itoa(int(ints[0])), true
	case "strconv.FormatInt":
		return strconv.FormatInt(ints[0], int(ints[1])), true
	case "strconv.FormatUint":
		return strconv.FormatUint(uint64(ints[0]), int(ints[1])), true
	case "strconv.Quote":
		return strconv.Quote(strs[0]), true
	case "strconv.Atoi":
		n, err := strconv.Atoi(strs[0])
		return Tuple{int64(n), numErr(err)}, true
	case "strconv.ParseInt":
		n, err := strconv.ParseInt(strs[0], int(ints[0]), int(ints[1]))
		return Tuple{n, numErr(err)}, true
	case "strconv.ParseUint":
		n, err := strconv.ParseUint(strs[0], int(ints[0]), int(ints[1]))
		return Tuple{int64(n), numErr(err)}, true
	case "strconv.ParseFloat":
		f, err := strconv.ParseFloat(strs[0], int(ints[0]))
		return Tuple{f, numErr(err)}, true
	}
	return nil, false
}

// ---- fmt -------------------------------------------------------------------

func (ex *Exec) typeString(t types.Type) string {
	return types.TypeString(t, func(p *types.Package) string { return p.Name() })
}

// fmtOperand renders one operand for the verb; returns bytes or opaque reason.
func (ex *Exec) fmtOperand(verb byte, arg Value) ([]Value, string) {
	itf, _ := arg.(Iface)
	conc := func(s string) ([]Value, string) { return ex.strBytes(s), "" }
	if verb == 'T' {
		if itf.T == nil {
			return conc("<nil>")
		}
		return conc(ex.typeString(itf.T))
	}
	if itf.T == nil {
		if verb == 'v' || verb == 's' || verb == 'w' {
			if verb == 'v' {
				return conc("<nil>")
			}
			return conc("%!" + string(verb) + "(<nil>)")
		}
		return conc("%!" + string(verb) + "(<nil>)")
	}
	v := itf.V
	// error / Stringer
	if verb == 'v' || verb == 's' || verb == 'w' || verb == 'q' {
		for _, mname := range []string{"Error", "String"} {
			if m := ex.findMethod(itf.T, mname); m != nil {
				if p, isPtr := v.(Ptr); isPtr && p == nil {
					if _, recvPtr := itf.T.Underlying().(*types.Pointer); recvPtr {
						// fmt catches the nil-receiver panic and prints <nil>
						return conc("<nil>")
					}
				}
				s := ex.forceStr(ex.callFunction(m, []Value{v}, nil, nil))
				if verb == 'q' {
					if cs, ok := s.(string); ok {
						return conc(strconv.Quote(cs))
					}
					return nil, lazyQuote
				}
				if o, ok := s.(*Opaque); ok {
					return nil, o.why
				}
				return ex.strBytes(s), ""
			}
		}
	}
	switch x := v.(type) {
	case string, *SymStr, *LazyStr, *VStr:
		s := ex.forceStr(x)
		if vs, ok := s.(*VStr); ok && verb == 'q' {
			// %q of a symbolic choice of strings: quote every alternative
			t := make([]string, len(vs.table))
			for i, e := range vs.table {
				t[i] = strconv.Quote(e)
			}
			return ex.strBytes(&VStr{sel: vs.sel, table: t}), ""
		}
		if o, ok := s.(*Opaque); ok {
			return nil, o.why
		}
		switch verb {
		case 's', 'v':
			return ex.strBytes(s), ""
		case 'q':
			if cs, ok := s.(string); ok {
				return conc(strconv.Quote(cs))
			}
			return nil, lazyQuote
		}
	case *Opaque:
		return nil, x.why
	case int64:
		bits, signed, _ := intKind(itf.T)
		switch verb {
		case 'd', 'v':
			if signed {
				return conc(strconv.FormatInt(x, 10))
			}
			_ = bits
			return conc(strconv.FormatUint(uint64(x), 10))
		case 'q':
			return conc(strconv.QuoteRune(rune(x)))
		case 'c':
			return conc(string(rune(x)))
		case 'x':
			return conc(strconv.FormatInt(x, 16))
		}
	case *Term:
		return nil, "formatted symbolic scalar"
	case bool:
		return conc(strconv.FormatBool(x))
	case float64:
		if verb == 'v' {
			return conc(strconv.FormatFloat(x, 'g', -1, 64))
		}
	case Struct:
		if verb == 'v' {
			// {a b} formatting of simple structs (Span has a String method, so this is rare)
			st, ok := itf.T.Underlying().(*types.Struct)
			if ok {
				var out []Value
				out = append(out, int64('{'))
				for i, f := range x {
					if i > 0 {
						out = append(out, int64(' '))
					}
					b, why := ex.fmtOperand('v', Iface{T: st.Field(i).Type(), V: f})
					if why != "" {
						return nil, why
					}
					out = append(out, b...)
				}
				out = append(out, int64('}'))
				return out, ""
			}
		}
	}
	return nil, fmt.Sprintf("unmodelled %%%c of %T (%s)", verb, v, itf.T)
}

func (ex *Exec) findMethod(t types.Type, name string) *ssa.Function {
	ms := ex.eng.prog.MethodSets.MethodSet(t)
	for i := 0; i < ms.Len(); i++ {
		sel := ms.At(i)
		if sel.Obj().Name() == name && sel.Obj().Exported() {
			sig := sel.Obj().Type().(*types.Signature)
			if sig.Params().Len() == 0 && sig.Results().Len() == 1 && isString(sig.Results().At(0).Type()) {
				ex.eng.mu.Lock()
				f := ex.eng.prog.MethodValue(sel)
				ex.eng.mu.Unlock()
				return f
			}
		}
	}
	return nil
}

// format implements the verbs the code under test uses; unknown verbs make the result opaque.
// format builds the formatted string. %q of a string with symbolic bytes is expensive
// (the library's quoting routine is interpreted on it) and usually only feeds error
// texts nobody reads, so in that case the whole result is computed on demand.
func (ex *Exec) format(formatV Value, argsV Value) Value {
	return ex.formatQ(formatV, argsV, false)
}

const lazyQuote = "%q of symbolic string"

func (ex *Exec) formatQ(formatV Value, argsV Value, quoteNow bool) Value {
	f, ok := ex.forceStr(formatV).(string)
	if !ok {
		return &Opaque{why: "symbolic format string"}
	}
	args, _ := argsV.(Slice)
	var out []Value
	ai := 0
	for i := 0; i < len(f); i++ {
		c := f[i]
		if c != '%' {
			out = append(out, int64(c))
			continue
		}
		i++
		if i >= len(f) {
			out = append(out, ex.strBytes("%!(NOVERB)")...)
			break
		}
		verb := f[i]
		if verb == '%' {
			out = append(out, int64('%'))
			continue
		}
		if strings.IndexByte("dsqvTwcx", verb) < 0 {
			return &Opaque{why: "unmodelled format verb %" + string(verb)}
		}
		if ai >= len(args) {
			out = append(out, ex.strBytes("%!"+string(verb)+"(MISSING)")...)
			continue
		}
		b, why := ex.fmtOperand(verb, args[ai])
		if why == lazyQuote {
			if !quoteNow {
				l := &LazyStr{}
				l.force = func() Value { return ex.formatQ(formatV, argsV, true) }
				return l
			}
			b, why = ex.quoteSymbolic(ex.fmtQuoteOperand(args[ai]))
		}
		ai++
		if why != "" {
			return &Opaque{why: why}
		}
		out = append(out, b...)
	}
	if ai < len(args) {
		return &Opaque{why: "extra format arguments"}
	}
	return ex.mkStr(out)
}

// fmtQuoteOperand returns the string %q would quote for an operand (the string itself,
// or the text of its Error/String method).
func (ex *Exec) fmtQuoteOperand(a Value) Value {
	itf, ok := a.(Iface)
	if !ok || itf.T == nil {
		return &Opaque{why: "%q operand"}
	}
	for _, mname := range []string{"Error", "String"} {
		if m := ex.findMethod(itf.T, mname); m != nil {
			return ex.forceStr(ex.callFunction(m, []Value{itf.V}, nil, nil))
		}
	}
	return ex.forceStr(itf.V)
}

func (ex *Exec) sprintf(formatV, argsV Value) Value {
	return ex.format(formatV, argsV)
}

// quoteSymbolic formats a string with symbolic bytes under %q by interpreting the
// library's own strconv.Quote on it.
func (ex *Exec) quoteSymbolic(s Value) ([]Value, string) {
	if o, ok := s.(*Opaque); ok {
		return nil, o.why
	}
	q := ex.eng.funcByName("strconv.Quote")
	if q == nil {
		return nil, "%q of symbolic string (strconv.Quote not loaded)"
	}
	r := ex.forceStr(ex.callFunction(q, []Value{s}, nil, nil))
	if o, ok := r.(*Opaque); ok {
		return nil, o.why
	}
	return ex.strBytes(r), ""
}

func (ex *Exec) sprintln(argsV Value, newline bool) Value {
	args, _ := argsV.(Slice)
	var out []Value
	isStr := func(v Value) bool {
		itf, ok := v.(Iface)
		if !ok || itf.T == nil {
			return false
		}
		b, ok := itf.T.Underlying().(*types.Basic)
		return ok && b.Info()&types.IsString != 0
	}
	for i, a := range args {
		// Sprintln: always a space; Sprint: a space when neither neighbour is a string
		if i > 0 && (newline || (!isStr(args[i-1]) && !isStr(a))) {
			out = append(out, int64(' '))
		}
		b, why := ex.fmtOperand('v', a)
		if why != "" {
			return &Opaque{why: why}
		}
		out = append(out, b...)
	}
	if newline {
		out = append(out, int64('\n'))
	}
	return ex.mkStr(out)
}

func (ex *Exec) writeTo(w Value, s Value) Value {
	itf := w.(Iface)
	if itf.T == nil {
		panic(ex.rtPanic("invalid memory address or nil pointer dereference (nil io.Writer)"))
	}
	if o, ok := s.(*Opaque); ok {
		panic(ex.unsupported("opaque text written to io.Writer: " + o.why))
	}
	bs := ex.strBytes(s)
	var wm *ssa.Function
	ms := ex.eng.prog.MethodSets.MethodSet(itf.T)
	for i := 0; i < ms.Len(); i++ {
		if ms.At(i).Obj().Name() == "Write" {
			ex.eng.mu.Lock()
			wm = ex.eng.prog.MethodValue(ms.At(i))
			ex.eng.mu.Unlock()
		}
	}
	if wm == nil {
		panic(ex.unsupported("Write method not found on " + itf.T.String()))
	}
	r := ex.callFunction(wm, []Value{itf.V, Slice(append([]Value{}, bs...))}, nil, nil)
	return r
}

// errorf builds the error value fmt.Errorf would build; the text is computed on demand.
func (ex *Exec) errorf(formatV, argsV Value) Value {
	f, _ := ex.forceStr(formatV).(string)
	args, _ := argsV.(Slice)
	msg := &LazyStr{}
	msg.force = func() Value { return ex.format(formatV, argsV) }
	// locate %w operands
	var wrapped []Value
	ai := 0
	for i := 0; i < len(f); i++ {
		if f[i] != '%' {
			continue
		}
		i++
		if i >= len(f) {
			break
		}
		if f[i] == '%' {
			continue
		}
		if f[i] == 'w' && ai < len(args) {
			if itf, ok := args[ai].(Iface); ok && itf.T != nil && ex.eng.isErrorType(itf.T) {
				wrapped = append(wrapped, itf)
			}
		}
		ai++
	}
	fp := ex.eng.byPath["fmt"]
	switch len(wrapped) {
	case 0:
		ep := ex.eng.byPath["errors"]
		t := ep.Pkg.Scope().Lookup("errorString").Type()
		var v Value = Struct{msg}
		return Iface{T: types.NewPointer(t), V: Ptr(&v)}
	case 1:
		t := fp.Pkg.Scope().Lookup("wrapError").Type()
		var v Value = Struct{msg, wrapped[0]}
		return Iface{T: types.NewPointer(t), V: Ptr(&v)}
	default:
		t := fp.Pkg.Scope().Lookup("wrapErrors").Type()
		var v Value = Struct{msg, Slice(wrapped)}
		return Iface{T: types.NewPointer(t), V: Ptr(&v)}
	}
}

func (e *Engine) isErrorType(t types.Type) bool {
	errT := types.Universe.Lookup("error").Type()
	return e.implements(t, errT)
}

// ---- errors.As / Is ---------------------------------------------------------

func (ex *Exec) errorsAs(err Iface, target Iface) Value {
	if target.T == nil {
		panic(&goPanic{val: Iface{T: types.Typ[types.String], V: "errors: target cannot be nil"}})
	}
	pt, ok := target.T.Underlying().(*types.Pointer)
	if !ok {
		panic(&goPanic{val: Iface{T: types.Typ[types.String], V: "errors: target must be a non-nil pointer"}})
	}
	tp := target.V.(Ptr)
	if tp == nil {
		panic(&goPanic{val: Iface{T: types.Typ[types.String], V: "errors: target must be a non-nil pointer"}})
	}
	elem := pt.Elem()
	return ex.asRec(err, elem, tp)
}

func (ex *Exec) asRec(err Iface, elem types.Type, tp Ptr) bool {
	for {
		if err.T == nil {
			return false
		}
		if types.IsInterface(elem) {
			if ex.eng.implements(err.T, elem) {
				*tp = err
				return true
			}
		} else if types.Identical(err.T, elem) {
			*tp = copyVal(err.V)
			return true
		}
		if m := ex.methodNamed(err.T, "As"); m != nil {
			sig := m.Signature
			if sig.Params().Len() == 1 && sig.Results().Len() == 1 && isBool(sig.Results().At(0).Type()) {
				r := ex.callFunction(m, []Value{err.V, Iface{T: types.NewPointer(elem), V: tp}}, nil, nil)
				if b, ok := r.(bool); ok && b {
					return true
				}
			}
		}
		m := ex.methodNamed(err.T, "Unwrap")
		if m == nil {
			return false
		}
		res := m.Signature.Results()
		if res.Len() != 1 {
			return false
		}
		r := ex.callFunction(m, []Value{err.V}, nil, nil)
		switch r := r.(type) {
		case Iface:
			if r.T == nil {
				return false
			}
			err = r
		case Slice:
			for _, e := range r {
				ei := e.(Iface)
				if ei.T == nil {
					continue
				}
				if ex.asRec(ei, elem, tp) {
					return true
				}
			}
			return false
		default:
			return false
		}
	}
}

func (ex *Exec) errorsIs(err Iface, target Iface) Value {
	for {
		if err.T == nil {
			return target.T == nil
		}
		if target.T != nil && types.Identical(err.T, target.T) && types.Comparable(err.T) {
			if b, ok := ex.equal(err.V, target.V).(bool); ok && b {
				return true
			}
		}
		m := ex.methodNamed(err.T, "Unwrap")
		if m == nil {
			return false
		}
		r := ex.callFunction(m, []Value{err.V}, nil, nil)
		switch r := r.(type) {
		case Iface:
			if r.T == nil {
				return false
			}
			err = r
		case Slice:
			for _, e := range r {
				if b, _ := ex.errorsIs(e.(Iface), target).(bool); b {
					return true
				}
			}
			return false
		default:
			return false
		}
	}
}

func (ex *Exec) methodNamed(t types.Type, name string) *ssa.Function {
	ms := ex.eng.prog.MethodSets.MethodSet(t)
	for i := 0; i < ms.Len(); i++ {
		if ms.At(i).Obj().Name() == name {
			ex.eng.mu.Lock()
			f := ex.eng.prog.MethodValue(ms.At(i))
			ex.eng.mu.Unlock()
			return f
		}
	}
	return nil
}

// ---- sync -------------------------------------------------------------------

func (ex *Exec) onceDo(once Ptr, f Value) Value {
	if ex.par != nil && ex.par.running {
		return ex.par.onceDo(ex, once, f)
	}
	if ex.onceDone[once] {
		return nil
	}
	ex.onceDone[once] = true
	ex.onceDepth++
	ex.call(f, nil, nil)
	ex.onceDepth--
	return nil
}

func (ex *Exec) mutexOp(m Ptr, lock bool) Value {
	if ex.par != nil && ex.par.running {
		return ex.par.mutexOp(ex, m, lock)
	}
	return nil
}
