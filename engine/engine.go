package main

// Loading the code under verification and the harness, building SSA.

import (
	"fmt"
	"go/types"
	"os"
	"path/filepath"
	"strings"
	"sync"

	"golang.org/x/tools/go/packages"
	"golang.org/x/tools/go/ssa"
	"golang.org/x/tools/go/ssa/ssautil"
)

const repoModule = "github.com/runreveal/pql"
const harnessModule = "verifh"

type intrinsic func(ex *Exec, fn *ssa.Function, args []Value) Value

type Engine struct {
	prog     *ssa.Program
	pkgs     []*ssa.Package
	byPath   map[string]*ssa.Package
	initPkgs []*ssa.Package

	mu          sync.Mutex
	metas       sync.Map
	methodCache sync.Map
	implCache   sync.Map
	intrCache   sync.Map
	redirCache  sync.Map
	pureCache   sync.Map

	intrinsics map[string]intrinsic
	redirects  map[string]string // real function -> model function (full names)

	harmlessGlobals map[string]bool
	initAllow       map[string]bool

	ifConvert       bool
	maxDepth        int
	solverKind      string
	solverTimeoutMs int
	seed            int
	maxValidate     int
	maxViolations   int

	smu           sync.Mutex
	solverTotal   SolverStats
	fastDecided   int
	wmu           sync.Mutex
	everWritten   map[string]bool
	writtenGrew   bool
	noFastPath    bool
	crossCheck    bool
	crossQueries  int
	crossCVC5     int
	disagreements []string

	funcsExecuted sync.Map // *ssa.Function -> true (repo functions reached)
	rtErrType     types.Type

	repoDir    string
	harnessDir string
	tokModels  map[string]*TokModel
}

func loadEngine(repoDir, harnessDir string, overlay map[string][]byte, extraPatterns []string) (*Engine, error) {
	// go.sum for the harness module comes from the repository (offline, no sumdb)
	if b, err := os.ReadFile(filepath.Join(repoDir, "go.sum")); err == nil {
		os.WriteFile(filepath.Join(harnessDir, "go.sum"), b, 0o644)
	}
	cfg := &packages.Config{
		Mode:    packages.LoadAllSyntax,
		Dir:     harnessDir,
		Env:     append(os.Environ(), "GOFLAGS="+goFlagsFor(repoDir, harnessDir), "GOPROXY=off", "GOSUMDB=off", "GOTOOLCHAIN=local"),
		Overlay: overlay,
	}
	patterns := append([]string{"./...", repoModule, repoModule + "/parser"}, extraPatterns...)
	initial, err := packages.Load(cfg, patterns...)
	if err != nil {
		return nil, err
	}
	nerr := 0
	packages.Visit(initial, nil, func(p *packages.Package) {
		for _, e := range p.Errors {
			if nerr < 10 {
				fmt.Fprintf(os.Stderr, "load error: %s: %v\n", p.PkgPath, e)
			}
			nerr++
		}
	})
	if nerr > 0 {
		return nil, fmt.Errorf("%d package load errors", nerr)
	}
	prog, _ := ssautil.AllPackages(initial, ssa.InstantiateGenerics)
	prog.Build()
	e := &Engine{
		prog:            prog,
		byPath:          map[string]*ssa.Package{},
		intrinsics:      map[string]intrinsic{},
		redirects:       map[string]string{},
		harmlessGlobals: map[string]bool{},
		initAllow:       map[string]bool{},
		ifConvert:       true,
		maxDepth:        400,
		solverKind:      "z3",
		solverTimeoutMs: 10000,
		maxValidate:     24,
		maxViolations:   40,
		repoDir:         repoDir,
		harnessDir:      harnessDir,
	}
	for _, p := range prog.AllPackages() {
		e.byPath[p.Pkg.Path()] = p
		e.pkgs = append(e.pkgs, p)
	}
	for _, path := range []string{repoModule + "/parser", repoModule} {
		if p := e.byPath[path]; p != nil {
			e.initPkgs = append(e.initPkgs, p)
		}
	}
	for path, p := range e.byPath {
		if strings.HasPrefix(path, harnessModule) {
			e.initPkgs = append(e.initPkgs, p)
		}
	}
	for _, p := range []string{"io", "bufio", "bytes", "strings", "slices", "sort", "cmp",
		"golang.org/x/exp/maps", "golang.org/x/exp/slices", "golang.org/x/exp/constraints", "maps",
		"unicode/utf8", "unicode", "math/bits", "iter", "strconv", "sort", "internal/itoa", "internal/stringslite",
		"internal/itoa", "internal/oserror"} {
		e.initAllow[p] = true
	}
	// packages whose package-level variables are only lookup tables we never read through real code
	for _, p := range []string{"errors", "internal/cpu", "runtime", "internal/bytealg", "internal/godebug", "unsafe", "sync", "sync/atomic", "internal/race", "fmt", "reflect", "os", "syscall", "time"} {
		e.harmlessGlobals[p] = true
	}
	registerIntrinsics(e)
	return e, nil
}

// goFlagsFor returns GOFLAGS for the harness module. The module's go.mod replaces the
// repository by /repo; for another checkout (a scratch copy) an alternative mod file
// with that path is written next to it and selected with -modfile.
func goFlagsFor(repoDir, harnessDir string) string {
	if repoDir == "/repo" {
		return "-mod=mod"
	}
	b, err := os.ReadFile(filepath.Join(harnessDir, "go.mod"))
	if err != nil {
		return "-mod=mod"
	}
	alt := filepath.Join(harnessDir, "go.alt.mod")
	os.WriteFile(alt, []byte(strings.Replace(string(b), "=> /repo", "=> "+repoDir, 1)), 0o644)
	if sum, err := os.ReadFile(filepath.Join(repoDir, "go.sum")); err == nil {
		os.WriteFile(filepath.Join(harnessDir, "go.alt.sum"), sum, 0o644)
	}
	return "-mod=mod -modfile=" + alt
}

func (e *Engine) initAllowed(p *ssa.Package) bool {
	path := p.Pkg.Path()
	if strings.HasPrefix(path, repoModule) || strings.HasPrefix(path, harnessModule) {
		return true
	}
	return e.initAllow[path]
}

func fullName(fn *ssa.Function) string {
	if fn == nil {
		return "<nil>"
	}
	// For instantiated generics use the origin's name.
	if o := fn.Origin(); o != nil {
		fn = o
	}
	return fn.String()
}

func (e *Engine) intrinsicFor(fn *ssa.Function) intrinsic {
	if v, ok := e.intrCache.Load(fn); ok {
		if v == nil {
			return nil
		}
		return v.(intrinsic)
	}
	name := fullName(fn)
	h, ok := e.intrinsics[name]
	if !ok {
		// package init calls of packages we do not initialise: skipped (guarded by initAllowed)
		if fn.Name() == "init" && fn.Pkg != nil && fn.Signature.Recv() == nil && fn.Parent() == nil && fn.Synthetic != "" {
			p := fn.Pkg
			h = func(ex *Exec, _ *ssa.Function, _ []Value) Value {
				// packages of the code under test and the harness are initialised eagerly in
				// import order; library packages lazily, when one of their variables is first touched
				path := p.Pkg.Path()
				if strings.HasPrefix(path, repoModule) || strings.HasPrefix(path, harnessModule) {
					ex.ensureInit(p)
				}
				return nil
			}
			ok = true
		}
	}
	if !ok {
		e.intrCache.Store(fn, nil)
		return nil
	}
	e.intrCache.Store(fn, h)
	return h
}

func (e *Engine) redirectFor(fn *ssa.Function) *ssa.Function {
	if v, ok := e.redirCache.Load(fn); ok {
		if v == nil {
			return nil
		}
		return v.(*ssa.Function)
	}
	target, ok := e.redirects[fullName(fn)]
	if !ok {
		e.redirCache.Store(fn, nil)
		return nil
	}
	r := e.funcByName(target)
	if r == nil {
		panic("redirect target not found: " + target)
	}
	e.redirCache.Store(fn, r)
	return r
}

// funcByName resolves "pkgpath.Func".
func (e *Engine) funcByName(name string) *ssa.Function {
	i := strings.LastIndex(name, ".")
	if i < 0 {
		return nil
	}
	p := e.byPath[name[:i]]
	if p == nil {
		return nil
	}
	return p.Func(name[i+1:])
}

func (e *Engine) isRepoFn(fn *ssa.Function) bool {
	return fn.Pkg != nil && strings.HasPrefix(fn.Pkg.Pkg.Path(), repoModule)
}

func (e *Engine) runtimeErrorType() types.Type {
	if e.rtErrType == nil {
		// a named string type with an Error method would be ideal; the harnesses never inspect it
		e.rtErrType = types.Typ[types.String]
	}
	return e.rtErrType
}
