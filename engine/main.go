package main

import (
	"flag"
	"fmt"
	"os"
	"runtime/debug"
	"runtime/pprof"
	"sort"
	"strconv"
	"strings"
	"time"
)

func envOr(k, d string) string {
	if v := os.Getenv(k); v != "" {
		return v
	}
	return d
}

func main() {
	debug.SetGCPercent(400)
	if len(os.Args) < 2 {
		fmt.Fprintln(os.Stderr, "usage: gosym explore|check|replay|selftest ...")
		os.Exit(2)
	}
	switch os.Args[1] {
	case "explore":
		cmdExplore(os.Args[2:])
	case "check":
		os.Exit(cmdCheck(os.Args[2:]))
	case "replay":
		os.Exit(cmdReplay(os.Args[2:]))
	case "version":
		fmt.Println("gosym: symbolic executor for go/ssa (x/tools v0.29.0) + SMT")
	default:
		fmt.Fprintln(os.Stderr, "unknown command", os.Args[1])
		os.Exit(2)
	}
}

func parseArgs(s string) []int64 {
	var r []int64
	for _, f := range strings.Split(s, ",") {
		if f == "" {
			continue
		}
		n, err := strconv.ParseInt(f, 10, 64)
		if err != nil {
			panic(err)
		}
		r = append(r, n)
	}
	return r
}

func cmdExplore(argv []string) {
	fs := flag.NewFlagSet("explore", flag.ExitOnError)
	harness := fs.String("harness", "", "harness function name in verifh/h")
	args := fs.String("args", "", "comma-separated integer arguments")
	workers := fs.Int("workers", 16, "parallel workers")
	budget := fs.Int("budget", 2000000, "step budget per path")
	maxPaths := fs.Int("maxpaths", 0, "stop after this many paths (0 = no limit)")
	noIf := fs.Bool("noifconv", false, "disable if-conversion")
	solver := fs.String("solver", "z3", "z3 | z3-new | cvc5")
	verbose := fs.Bool("v", false, "verbose")
	cpuprof := fs.String("cpuprofile", "", "write cpu profile")
	fs.Parse(argv)
	t0 := time.Now()
	e, err := loadEngine(envOr("VERIF_REPO", "/repo"), envOr("VERIF_HARNESS", "/verif/harness"), nil, nil)
	if err != nil {
		fmt.Fprintln(os.Stderr, "load:", err)
		os.Exit(2)
	}
	e.ifConvert = !*noIf
	e.solverKind = *solver
	fmt.Printf("loaded in %.1fs\n", time.Since(t0).Seconds())
	fn := e.funcByName(harnessModule + "/h." + *harness)
	if fn == nil {
		fmt.Fprintln(os.Stderr, "no such harness", *harness)
		os.Exit(2)
	}
	h := &HarnessRun{Name: *harness, Fn: fn, Args: parseArgs(*args), Budget: *budget, SampleK: 50, MaxPaths: *maxPaths}
	if *cpuprof != "" {
		f, _ := os.Create(*cpuprof)
		pprof.StartCPUProfile(f)
		defer pprof.StopCPUProfile()
	}
	st := e.explore(h, *workers)
	printStats(st, *verbose)
}

func printStats(st *RunStats, verbose bool) {
	fmt.Printf("paths=%d decisions=%d steps=%d wall=%.2fs outcomes=%v tainted=%d unknowns=%d concretized=%d truncated=%v\n",
		st.Paths, st.Decisions, st.Steps, st.Wall.Seconds(), st.Outcomes, st.Tainted, st.Unknowns, st.Concretized, st.Truncated)
	fmt.Printf("solver: queries=%d sat=%d unsat=%d unknown=%d errors=%d cachehits=%d wall=%.2fs\n",
		st.Solver.Queries, st.Solver.Sat, st.Solver.Unsat, st.Solver.Unknown, st.Solver.Errors, st.Solver.CacheHit, st.Solver.Wall.Seconds())
	var covers []string
	for c, n := range st.Covers {
		covers = append(covers, fmt.Sprintf("%s:%d", c, n))
	}
	sort.Strings(covers)
	fmt.Printf("covers: %v\n", covers)
	for m, n := range st.Unsupported {
		fmt.Printf("unsupported x%d: %s\n", n, m)
	}
	for i, v := range st.Violations {
		if i >= 10 && !verbose {
			fmt.Printf("... %d more violations\n", len(st.Violations)-i)
			break
		}
		fmt.Printf("VIOL %s: %s inputs=%v where=%s tainted=%v\n", v.Kind, v.Msg, showInputs(v.Inputs), v.Where, v.Tainted)
	}
	if verbose {
		for _, s := range st.Samples {
			fmt.Printf("sample: %s | %s | %s\n", s.Outcome, showInputs(s.Inputs), s.PathCond)
		}
	}
}

func showInputs(ins []ReplayInput) string {
	var parts []string
	for _, in := range ins {
		switch in.Kind {
		case "tok":
			parts = append(parts, in.Text)
		case "bytes":
			b := make([]byte, len(in.Val))
			for i, v := range in.Val {
				b[i] = byte(v)
			}
			parts = append(parts, fmt.Sprintf("%q", string(b)))
		default:
			parts = append(parts, fmt.Sprintf("%s%v", in.Kind, in.Val))
		}
	}
	return strings.Join(parts, " ")
}
