package main

// Engine side of the value algebra (verif.Val / verif.Form).

import (
	"fmt"
	"strings"

	"golang.org/x/tools/go/ssa"
)

func smtSafe(s string) string {
	var sb strings.Builder
	sb.WriteString("v_")
	for i := 0; i < len(s); i++ {
		c := s[i]
		if ('a' <= c && c <= 'z') || ('A' <= c && c <= 'Z') || ('0' <= c && c <= '9') {
			sb.WriteByte(c)
		} else {
			fmt.Fprintf(&sb, "_%02x", c)
		}
	}
	return sb.String()
}

const valPrelude = `(declare-fun isNull (Val) Bool)
(declare-fun truth (Val) Bool)
(declare-const VNULL Val)
(declare-const VTRUE Val)
(declare-const VFALSE Val)
(assert (isNull VNULL))
(assert (not (isNull VTRUE)))
(assert (not (isNull VFALSE)))
(assert (truth VTRUE))
(assert (not (truth VFALSE)))`

func (ex *Exec) valTerm(v Value) *Term {
	t, ok := v.(*Term)
	if !ok || t.bits != sortVal {
		panic(ex.unsupported(fmt.Sprintf("not a Val term: %T", v)))
	}
	return t
}

func (ex *Exec) formTerm(v Value) *Term {
	switch f := v.(type) {
	case *Term:
		if f.bits == 0 {
			return f
		}
	case bool:
		return ex.ts.Bool(f)
	}
	panic(ex.unsupported(fmt.Sprintf("not a Form term: %T", v)))
}

func (ex *Exec) concName(v Value, what string) string {
	s, ok := ex.forceStr(v).(string)
	if !ok {
		panic(ex.unsupported(what + " with symbolic name"))
	}
	return s
}

func registerVal(e *Engine, reg func(string, intrinsic)) {
	v := func(name string, h func(ex *Exec, a []Value) Value) {
		reg(verifPkg+"."+name, func(ex *Exec, fn *ssa.Function, a []Value) Value { return h(ex, a) })
	}
	v("VConst", func(ex *Exec, a []Value) Value {
		return ex.ts.App(smtSafe(ex.concName(a[0], "VConst")), sortVal)
	})
	v("VNull", func(ex *Exec, a []Value) Value { return ex.ts.mk(OpApp, sortVal, 0, "VNULL") })
	v("VTrue", func(ex *Exec, a []Value) Value { return ex.ts.mk(OpApp, sortVal, 0, "VTRUE") })
	v("VFalse", func(ex *Exec, a []Value) Value { return ex.ts.mk(OpApp, sortVal, 0, "VFALSE") })
	v("VApp", func(ex *Exec, a []Value) Value {
		args, _ := a[1].(Slice)
		ts := make([]*Term, len(args))
		for i, x := range args {
			ts[i] = ex.valTerm(x)
		}
		name := "f" + smtSafe(ex.concName(a[0], "VApp")) + fmt.Sprintf("_%d", len(ts))
		return ex.ts.App(name, sortVal, ts...)
	})
	v("VIte", func(ex *Exec, a []Value) Value {
		return ex.ts.Ite(ex.formTerm(a[0]), ex.valTerm(a[1]), ex.valTerm(a[2]))
	})
	v("FEq", func(ex *Exec, a []Value) Value { return ex.ts.Eq(ex.valTerm(a[0]), ex.valTerm(a[1])) })
	v("FIsNull", func(ex *Exec, a []Value) Value {
		return ex.ts.mk(OpApp, 0, 0, "isNull", ex.valTerm(a[0]))
	})
	v("FTruth", func(ex *Exec, a []Value) Value {
		x := ex.valTerm(a[0])
		return ex.ts.And(ex.ts.Not(ex.ts.mk(OpApp, 0, 0, "isNull", x)), ex.ts.mk(OpApp, 0, 0, "truth", x))
	})
	v("FNot", func(ex *Exec, a []Value) Value { return ex.ts.Not(ex.formTerm(a[0])) })
	v("FAnd", func(ex *Exec, a []Value) Value { return ex.ts.And(ex.formTerm(a[0]), ex.formTerm(a[1])) })
	v("FOr", func(ex *Exec, a []Value) Value { return ex.ts.Or(ex.formTerm(a[0]), ex.formTerm(a[1])) })
	v("FIff", func(ex *Exec, a []Value) Value { return ex.ts.Eq(ex.formTerm(a[0]), ex.formTerm(a[1])) })
	v("AssertValid", func(ex *Exec, a []Value) Value {
		ex.assert(ex.formTerm(a[0]), a[1])
		return nil
	})
}
