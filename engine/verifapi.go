package main

// The verif.* harness intrinsics as seen by the engine.

import (
	"fmt"
	"go/types"

	"golang.org/x/tools/go/ssa"
)

const verifPkg = harnessModule + "/verif"

func registerVerif(e *Engine, reg func(string, intrinsic)) {
	cliAlias := map[string]string{"IntRange": "vIntRange", "Bool": "vBool", "Concrete": "vConcrete", "Assert": "vAssert", "Cover": "vCover", "Obs": "vObs", "Assume": "vAssume"}
	v := func(name string, h func(ex *Exec, a []Value) Value) {
		reg(verifPkg+"."+name, func(ex *Exec, fn *ssa.Function, a []Value) Value { return h(ex, a) })
		if alias, ok := cliAlias[name]; ok {
			// the C16 harness lives in package main of cmd/pql (overlay) and carries its own copies
			reg(repoModule+"/cmd/pql."+alias, func(ex *Exec, fn *ssa.Function, a []Value) Value { return h(ex, a) })
		}
	}
	reg(repoModule+"/cmd/pql.vInEngine", func(ex *Exec, fn *ssa.Function, a []Value) Value { return true })
	v("Byte", func(ex *Exec, a []Value) Value {
		t := ex.freshVar("in", 8)
		ex.inputs = append(ex.inputs, inputRec{Kind: "byte", Terms: []*Term{t}})
		return t
	})
	v("Bytes", func(ex *Exec, a []Value) Value {
		n := ex.concreteInt(a[0], types.Typ[types.Int])
		return ex.freshBytes(n, "")
	})
	v("BytesIn", func(ex *Exec, a []Value) Value {
		n := ex.concreteInt(a[0], types.Typ[types.Int])
		alpha, ok := ex.forceStr(a[1]).(string)
		if !ok {
			panic(ex.unsupported("BytesIn with symbolic alphabet"))
		}
		return ex.freshBytes(n, alpha)
	})
	v("Bool", func(ex *Exec, a []Value) Value {
		t := ex.freshVar("in", 0)
		ex.inputs = append(ex.inputs, inputRec{Kind: "bool", Terms: []*Term{t}})
		return t
	})
	v("IntRange", func(ex *Exec, a []Value) Value {
		lo := ex.concreteInt(a[0], types.Typ[types.Int])
		hi := ex.concreteInt(a[1], types.Typ[types.Int])
		if hi <= lo {
			panic(pathEnd{kind: "assume", msg: "empty IntRange"})
		}
		if hi == lo+1 {
			// still recorded so that replays stay aligned
			t := ex.freshVar("in", 64)
			ex.inputs = append(ex.inputs, inputRec{Kind: "intrange", Terms: []*Term{t}})
			ex.addPC(ex.ts.Eq(t, ex.ts.Const(uint64(lo), 64)))
			return int64(lo)
		}
		t := ex.freshVar("in", 64)
		ex.inputs = append(ex.inputs, inputRec{Kind: "intrange", Terms: []*Term{t}})
		ts := ex.ts
		ex.addPC(ts.Bin(OpSLe, ts.Const(uint64(lo), 64), t))
		ex.addPC(ts.Bin(OpSLt, t, ts.Const(uint64(hi), 64)))
		return t
	})
	v("Assume", func(ex *Exec, a []Value) Value {
		switch c := a[0].(type) {
		case bool:
			if !c {
				panic(pathEnd{kind: "assume"})
			}
		case *Term:
			switch ex.feasible(c) {
			case Unsat:
				panic(pathEnd{kind: "assume"})
			case Unknown:
				ex.unknowns++
				ex.tainted = true
			}
			ex.addPC(c)
		}
		return nil
	})
	v("Assert", func(ex *Exec, a []Value) Value {
		ex.assert(a[0], a[1])
		return nil
	})
	v("Fail", func(ex *Exec, a []Value) Value {
		ex.assert(false, a[0])
		return nil
	})
	v("Cover", func(ex *Exec, a []Value) Value {
		if s, ok := ex.forceStr(a[0]).(string); ok {
			ex.covers[s] = true
		}
		return nil
	})
	v("Obs", func(ex *Exec, a []Value) Value {
		l, _ := ex.forceStr(a[0]).(string)
		ex.obs = append(ex.obs, obsRec{Label: l, Val: ex.forceStr(a[1])})
		return nil
	})
	v("ObsInt", func(ex *Exec, a []Value) Value {
		l, _ := ex.forceStr(a[0]).(string)
		ex.obs = append(ex.obs, obsRec{Label: l, Val: a[1]})
		return nil
	})
	v("PermuteMaps", func(ex *Exec, a []Value) Value {
		ex.permuteMaps = true
		return nil
	})
	v("Concrete", func(ex *Exec, a []Value) Value {
		return int64(ex.concreteInt(a[0], types.Typ[types.Int]))
	})
	v("ConcreteStr", func(ex *Exec, a []Value) Value {
		return ex.concreteStr(a[0])
	})
}

func (ex *Exec) freshBytes(n int, alpha string) Value {
	if n < 0 {
		panic(pathEnd{kind: "assume", msg: "negative length"})
	}
	terms := make([]*Term, n)
	bs := make([]Value, n)
	ts := ex.ts
	for i := range terms {
		t := ex.freshVar("in", 8)
		terms[i] = t
		bs[i] = t
		if alpha != "" {
			c := ts.ff
			seen := map[byte]bool{}
			for j := 0; j < len(alpha); j++ {
				if seen[alpha[j]] {
					continue
				}
				seen[alpha[j]] = true
				c = ts.Or(c, ts.Eq(t, ts.Const(uint64(alpha[j]), 8)))
			}
			ex.addPC(c)
		}
	}
	ex.inputs = append(ex.inputs, inputRec{Kind: "bytes", Terms: terms})
	if n == 0 {
		return ""
	}
	return &SymStr{b: bs}
}

// concreteStr forks over the contents of a symbolic string.
func (ex *Exec) concreteStr(v Value) Value {
	s := ex.forceStr(v)
	switch s := s.(type) {
	case string:
		return s
	case *VStr:
		return ex.concretizeVStr(s)
	case *SymStr:
		out := make([]byte, len(s.b))
		for i, b := range s.b {
			switch b := b.(type) {
			case int64:
				out[i] = byte(b)
			case *Term:
				out[i] = byte(ex.concretize(b))
			}
		}
		return string(out)
	}
	panic(ex.unsupported(fmt.Sprintf("ConcreteStr of %T", s)))
}

func (ex *Exec) assert(cond Value, msgV Value) {
	msg, isConc := ex.forceStr(msgV).(string)
	if !isConc {
		msg = "(message with symbolic text)"
		if ss, ok := ex.forceStr(msgV).(*SymStr); ok {
			// keep the concrete prefix
			var b []byte
			for _, x := range ss.b {
				c, ok := x.(int64)
				if !ok {
					break
				}
				b = append(b, byte(c))
			}
			msg = string(b) + "…"
		}
	}
	switch c := cond.(type) {
	case bool:
		if c {
			return
		}
		ins, _, v := ex.witness()
		viol := &Violation{Kind: "assert", Msg: msg, Path: ex.trace, Tainted: ex.tainted, Where: describeStack(ex)}
		if v == Sat {
			viol.Inputs = ins
		} else {
			viol.Tainted = true
		}
		ex.violations = append(ex.violations, viol)
		panic(pathEnd{kind: "violated", msg: msg})
	case *Term:
		nc := ex.ts.Not(c)
		switch ex.feasibleSMT(nc) {
		case Unsat:
			ex.addPC(c)
			return
		case Unknown:
			ex.unknowns++
			ex.tainted = true
			ex.hrun.noteInconclusive(msg)
			ex.addPC(c)
			return
		}
		ins, _, v := ex.witness(nc)
		viol := &Violation{Kind: "assert", Msg: msg, Path: ex.trace, Tainted: ex.tainted, Where: describeStack(ex)}
		if v == Sat {
			viol.Inputs = ins
		} else {
			viol.Tainted = true
		}
		ex.violations = append(ex.violations, viol)
		// continue on the side where the assertion holds, if any
		if ex.feasible(c) == Unsat {
			panic(pathEnd{kind: "violated", msg: msg})
		}
		ex.addPC(c)
	default:
		panic(ex.unsupported(fmt.Sprintf("assert on %T", cond)))
	}
}

func (h *HarnessRun) noteInconclusive(msg string) {
	h.mu.Lock()
	h.inconclusive++
	h.mu.Unlock()
}
