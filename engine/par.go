package main

// Shared-state tracking and two-thread interleaving (C14).
//
// verif.MarkShared() computes the set of heap cells reachable from the package-
// level variables of the code under test (and from values passed explicitly);
// later writes to those cells are logged (frame condition). verif.Par(f, g)
// runs two closures as interpreter threads: context switches happen only
// before *visible* operations — sync operations and accesses to shared
// locations that some explored execution writes — and the scheduler's choice
// at each is an explicit n-ary decision, so every interleaving at that
// granularity is explored. Conflicting accesses unordered by happens-before
// (Once/Mutex edges) are reported as data races.

import (
	"fmt"
	"go/types"
	"sort"
	"strings"
	"sync"

	"golang.org/x/tools/go/ssa"
)

type sharedState struct {
	cells map[*Value]string
	maps  map[*Map]string
	log   []sharedWrite
}

type sharedWrite struct {
	loc    string
	inOnce bool
}

func (ex *Exec) markShared(extra []Value) {
	sh := &sharedState{cells: map[*Value]string{}, maps: map[*Map]string{}}
	seen := map[any]bool{}
	var walk func(v Value, path string, depth int)
	walkCell := func(p *Value, path string, depth int) {
		if p == nil || seen[p] {
			return
		}
		seen[p] = true
		sh.cells[p] = path
		walk(*p, path, depth+1)
	}
	walk = func(v Value, path string, depth int) {
		if depth > 12 {
			return
		}
		switch v := v.(type) {
		case Ptr:
			walkCell(v, path, depth)
		case Struct:
			for i := range v {
				walkCell(&v[i], fmt.Sprintf("%s.%d", path, i), depth)
			}
		case Array:
			for i := range v {
				walkCell(&v[i], path+"[]", depth)
			}
		case Slice:
			full := v[:cap(v)]
			for i := range full {
				walkCell(&full[i], path+"[]", depth)
			}
		case *Map:
			if v == nil || seen[v] {
				return
			}
			seen[v] = true
			sh.maps[v] = path
			for _, e := range v.entries {
				walk(e.V, path+"{}", depth+1)
			}
		case Iface:
			walk(v.V, path, depth)
		case *Closure:
			if v != nil {
				for i, e := range v.Env {
					walk(e, fmt.Sprintf("%s.env%d", path, i), depth+1)
				}
			}
		}
	}
	// every package-level variable of the code under test exists from process start
	for path, pkg := range ex.eng.byPath {
		if !strings.HasPrefix(path, repoModule) || strings.HasSuffix(path, "/cmd/pql") {
			continue
		}
		for _, m := range pkg.Members {
			if g, ok := m.(*ssa.Global); ok {
				ex.globalAddr(g)
			}
		}
	}
	var globals []*ssa.Global
	for g := range ex.globals {
		if g.Pkg != nil && strings.HasPrefix(g.Pkg.Pkg.Path(), repoModule) {
			globals = append(globals, g)
		}
	}
	sort.Slice(globals, func(i, j int) bool { return globals[i].String() < globals[j].String() })
	for _, g := range globals {
		walkCell(ex.globals[g], g.String(), 0)
	}
	for i, v := range extra {
		walk(v, fmt.Sprintf("arg%d", i), 0)
	}
	ex.shared = sh
}

func (ex *Exec) noteRead(p Ptr) {
	if ex.shared == nil || p == nil {
		return
	}
	if loc, ok := ex.shared.cells[p]; ok {
		ex.sharedAccess(loc, false)
	}
}

func (ex *Exec) noteWrite(p Ptr) {
	if ex.shared == nil || p == nil {
		return
	}
	if loc, ok := ex.shared.cells[p]; ok {
		ex.sharedAccess(loc, true)
	}
}

// noteSyncWrite records a write to shared state through a synchronised container
// (no race possible, but the state outlives the call).
func (ex *Exec) noteSyncWrite(p Ptr) {
	if ex.shared == nil || p == nil {
		return
	}
	if loc, ok := ex.shared.cells[p]; ok {
		ex.shared.log = append(ex.shared.log, sharedWrite{loc: loc, inOnce: ex.onceDepth > 0})
	}
}

func (ex *Exec) noteMap(m *Map, write bool) {
	if ex.shared == nil || m == nil {
		return
	}
	if loc, ok := ex.shared.maps[m]; ok {
		ex.sharedAccess(loc, write)
	}
}

func (ex *Exec) sharedAccess(loc string, write bool) {
	if write {
		ex.shared.log = append(ex.shared.log, sharedWrite{loc: loc, inOnce: ex.onceDepth > 0})
		ex.eng.noteWrittenLoc(loc)
	}
	if ex.par != nil && ex.par.running {
		ex.par.access(ex, loc, write)
	}
}

func (e *Engine) noteWrittenLoc(loc string) {
	e.wmu.Lock()
	if !e.everWritten[loc] {
		if e.everWritten == nil {
			e.everWritten = map[string]bool{}
		}
		e.everWritten[loc] = true
		e.writtenGrew = true
	}
	e.wmu.Unlock()
}

func (e *Engine) isWrittenLoc(loc string) bool {
	e.wmu.Lock()
	r := e.everWritten[loc]
	e.wmu.Unlock()
	return r
}

// ---- threads ------------------------------------------------------------------

type threadKilled struct{}

type thread struct {
	id         int
	resume     chan bool
	yielded    chan struct{}
	stack      []*frame
	depth      int
	deferOwner []*frame
	onceDepth  int
	done       bool
	pan        any
	clock      [2]int
	blockedOn  Ptr
}

type onceState struct {
	done  bool
	owner *thread
	clock [2]int
}

type accessRec struct {
	wTid   int
	wClock int
	hasW   bool
	rClock [2]int
	hasR   [2]bool
}

type parState struct {
	running  bool
	threads  [2]*thread
	cur      *thread
	once     map[Ptr]*onceState
	mutex    map[Ptr]*onceState
	acc      map[string]*accessRec
	races    []string
	switches int
}

func (p *parState) noteDecision() {}

// yield hands control back to the scheduler before a visible operation.
func (p *parState) yield(ex *Exec) {
	t := p.cur
	t.stack, t.depth, t.deferOwner, t.onceDepth = ex.stack, ex.depth, ex.deferOwner, ex.onceDepth
	t.yielded <- struct{}{}
	if ok := <-t.resume; !ok {
		panic(threadKilled{})
	}
	ex.stack, ex.depth, ex.deferOwner, ex.onceDepth = t.stack, t.depth, t.deferOwner, t.onceDepth
}

func (p *parState) access(ex *Exec, loc string, write bool) {
	if !ex.eng.isWrittenLoc(loc) {
		return // never written by any explored execution: all accesses are reads and commute
	}
	p.yield(ex)
	t := p.cur
	other := 1 - t.id
	a := p.acc[loc]
	if a == nil {
		a = &accessRec{}
		p.acc[loc] = a
	}
	race := false
	if a.hasW && a.wTid == other && a.wClock > t.clock[other] {
		race = true
	}
	if write && a.hasR[other] && a.rClock[other] > t.clock[other] {
		race = true
	}
	if race {
		p.races = append(p.races, loc)
	}
	if write {
		a.hasW, a.wTid, a.wClock = true, t.id, t.clock[t.id]
	} else {
		a.hasR[t.id], a.rClock[t.id] = true, t.clock[t.id]
	}
}

func join(a *[2]int, b [2]int) {
	for i := range a {
		if b[i] > a[i] {
			a[i] = b[i]
		}
	}
}

func (p *parState) onceDo(ex *Exec, once Ptr, f Value) Value {
	if !p.running {
		if ex.onceDone[once] {
			return nil
		}
		ex.onceDone[once] = true
		ex.onceDepth++
		ex.call(f, nil, nil)
		ex.onceDepth--
		return nil
	}
	p.yield(ex)
	t := p.cur
	st := p.once[once]
	if st == nil {
		st = &onceState{done: ex.onceDone[once]}
		p.once[once] = st
	}
	for !st.done && st.owner != nil && st.owner != t {
		t.blockedOn = once
		p.yield(ex)
	}
	t.blockedOn = nil
	if st.done {
		join(&t.clock, st.clock)
		return nil
	}
	st.owner = t
	ex.onceDepth++
	ex.call(f, nil, nil)
	ex.onceDepth--
	t.clock[t.id]++
	st.clock = t.clock
	st.done = true
	st.owner = nil
	ex.onceDone[once] = true
	return nil
}

func (p *parState) mutexOp(ex *Exec, m Ptr, lock bool) Value {
	if !p.running {
		return nil
	}
	p.yield(ex)
	t := p.cur
	st := p.mutex[m]
	if st == nil {
		st = &onceState{}
		p.mutex[m] = st
	}
	if lock {
		for st.owner != nil && st.owner != t {
			t.blockedOn = m
			p.yield(ex)
		}
		t.blockedOn = nil
		st.owner = t
		join(&t.clock, st.clock)
	} else {
		t.clock[t.id]++
		st.clock = t.clock
		st.owner = nil
	}
	return nil
}

func (p *parState) blocked(t *thread) bool {
	if t.blockedOn == nil {
		return false
	}
	if st := p.once[t.blockedOn]; st != nil {
		return !st.done && st.owner != nil && st.owner != t
	}
	if st := p.mutex[t.blockedOn]; st != nil {
		return st.owner != nil && st.owner != t
	}
	return false
}

// runPar executes f and g as two interleaved threads.
func (ex *Exec) runPar(f, g Value) {
	if ex.shared == nil {
		ex.markShared([]Value{f, g})
	}
	p := &parState{running: true, once: map[Ptr]*onceState{}, mutex: map[Ptr]*onceState{}, acc: map[string]*accessRec{}}
	saved := ex.par
	ex.par = p
	mainStack, mainDepth, mainDefer, mainOnce := ex.stack, ex.depth, ex.deferOwner, ex.onceDepth
	var wg sync.WaitGroup
	for i, fn := range []Value{f, g} {
		t := &thread{id: i, resume: make(chan bool), yielded: make(chan struct{})}
		t.clock[i] = 1
		t.depth = mainDepth
		p.threads[i] = t
		wg.Add(1)
		go func(t *thread, fn Value) {
			defer wg.Done()
			defer func() {
				r := recover()
				if _, killed := r.(threadKilled); killed {
					r = nil
				}
				t.pan = r
				t.done = true
				t.yielded <- struct{}{}
			}()
			if ok := <-t.resume; !ok {
				panic(threadKilled{})
			}
			ex.stack, ex.depth, ex.deferOwner, ex.onceDepth = nil, t.depth, nil, 0
			ex.call(fn, nil, nil)
		}(t, fn)
	}
	var pan any
	for {
		var runnable []*thread
		for _, t := range p.threads {
			if !t.done && !p.blocked(t) {
				runnable = append(runnable, t)
			}
		}
		if len(runnable) == 0 {
			break
		}
		pick := runnable[0]
		if len(runnable) == 2 {
			func() {
				defer func() {
					if r := recover(); r != nil {
						pan = r
					}
				}()
				pick = runnable[ex.chooseN(2, "schedule")]
			}()
			if pan != nil {
				break
			}
			p.switches++
		}
		p.cur = pick
		pick.resume <- true
		<-pick.yielded
		if pick.done && pick.pan != nil {
			pan = pick.pan
			break
		}
	}
	deadlock := false
	for _, t := range p.threads {
		if !t.done {
			if pan == nil {
				deadlock = true
			}
			t.resume <- false // kill
			<-t.yielded
		}
	}
	wg.Wait()
	p.running = false
	ex.par = saved
	ex.stack, ex.depth, ex.deferOwner, ex.onceDepth = mainStack, mainDepth, mainDefer, mainOnce
	ex.lastRaces = p.races
	if pan != nil {
		panic(pan)
	}
	if deadlock {
		panic(ex.unsupported("deadlock between interpreter threads"))
	}
}

func registerPar(e *Engine, reg func(string, intrinsic)) {
	v := func(name string, h func(ex *Exec, a []Value) Value) {
		reg(verifPkg+"."+name, func(ex *Exec, fn *ssa.Function, a []Value) Value { return h(ex, a) })
	}
	v("MarkShared", func(ex *Exec, a []Value) Value {
		extra, _ := a[0].(Slice)
		// make sure the package-level state of the code under test exists
		for _, p := range ex.eng.initPkgs {
			ex.ensureInit(p)
		}
		ex.markShared(extra)
		return nil
	})
	v("SharedWrites", func(ex *Exec, a []Value) Value {
		// locations written since the mark outside once-only initialisation
		var out Slice
		if ex.shared != nil {
			seen := map[string]bool{}
			for _, w := range ex.shared.log {
				if !w.inOnce && !seen[w.loc] {
					seen[w.loc] = true
					out = append(out, w.loc)
				}
			}
		}
		if out == nil {
			out = Slice{}
		}
		return out
	})
	v("OnceWrites", func(ex *Exec, a []Value) Value {
		n := 0
		if ex.shared != nil {
			for _, w := range ex.shared.log {
				if w.inOnce {
					n++
				}
			}
		}
		return int64(n)
	})
	v("ResetWriteLog", func(ex *Exec, a []Value) Value {
		if ex.shared != nil {
			ex.shared.log = nil
		}
		return nil
	})
	v("Par", func(ex *Exec, a []Value) Value {
		ex.runPar(a[0], a[1])
		races, _ := ex.lastRacesValue()
		return races
	})
	_ = types.Typ
}

func (ex *Exec) lastRacesValue() (Value, bool) {
	out := Slice{}
	seen := map[string]bool{}
	for _, r := range ex.lastRaces {
		if !seen[r] {
			seen[r] = true
			out = append(out, r)
		}
	}
	return out, len(out) > 0
}

// atomicOp: an atomic access is a visible operation and a synchronisation point
// (release/acquire on the variable, approximated by a per-variable clock).
func (ex *Exec) atomicOp(v Ptr) {
	if ex.par == nil || !ex.par.running {
		return
	}
	p := ex.par
	p.yield(ex)
	t := p.cur
	st := p.mutex[v]
	if st == nil {
		st = &onceState{}
		p.mutex[v] = st
	}
	join(&t.clock, st.clock)
	t.clock[t.id]++
	st.clock = t.clock
}
