package main

// The registered bounds per property (only bounds that run clean on the unchanged tree).

func rs(h string, args ...int64) RunSpec { return RunSpec{Harness: h, Args: args} }

func propSpecs() map[string]*PropSpec {
	m := map[string]*PropSpec{}
	add := func(p *PropSpec) { m[p.ID] = p }
	add(&PropSpec{
		ID: "C09", Title: "lexer partitions the source into the documented tokens",
		Quick: []RunSpec{rs("H_C09", 0, 0), rs("H_C09", 1, 0), rs("H_C09", 2, 0), rs("H_C09", 3, 1), rs("H_C09", 3, 2), rs("H_C09", 3, 3), rs("H_C09", 3, 4)},
		Thorough: []RunSpec{rs("H_C09", 0, 0), rs("H_C09", 1, 0), rs("H_C09", 2, 0), rs("H_C09", 3, 0),
			rs("H_C09", 5, 1), rs("H_C09", 5, 2), rs("H_C09", 5, 3), rs("H_C09", 5, 4), rs("H_C09", 4, 6)},
		Covers: []string{"has-token", "two-tokens", "number", "string", "quoted-ident", "error-token", "ident"},
		Bounds: map[string]string{"quick": "all byte strings of length <= 2 (full byte range); length <= 3 over the focused alphabets numbers/strings/names/operators",
			"thorough": "all byte strings of length <= 3 (full byte range); length <= 5 over the focused alphabets; length <= 4 over the layout alphabet"},
		Outside: []string{"sources longer than the bound", "BasicLit.Float64 and Uint64 of float literals (floating point)", "string values containing invalid UTF-8 together with an escape (don't-care)", "extent of the error token for '!' followed by another character (don't-care)"},
		Stubs:   []string{"unicode.IsSpace -> models.IsSpace (validated against the real table)", "utf8 decode/encode: engine model of the Go specification", "strings.{TrimLeft,ReplaceAll,ContainsAny} -> models", "strconv.{ParseUint,FormatUint} -> models", "fmt.Sprintf: error texts opaque"},
	})
	return m
}
