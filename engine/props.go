package main

// The registered bounds per property (only bounds that run clean on the unchanged tree).

func rs(h string, args ...int64) RunSpec { return RunSpec{Harness: h, Args: args} }

func propSpecs() map[string]*PropSpec {
	m := map[string]*PropSpec{}
	add := func(p *PropSpec) { m[p.ID] = p }
	seeds := func(h string, n int64) []RunSpec {
		var r []RunSpec
		for i := int64(0); i < 21; i++ {
			r = append(r, rs(h, i, n))
		}
		return r
	}
	tokRuns := func(h string, maxK int64, vocab int64) []RunSpec {
		var r []RunSpec
		for k := int64(0); k <= maxK; k++ {
			r = append(r, rs(h, k, vocab))
		}
		return r
	}
	tokStub := "parser.Scan summarised on token-slot sources from tables derived on this run from the real Scan (78 lexemes; one-token locality validated on all lexeme pairs); native replays use the real Scan"
	var lib []RunSpec
	for k := int64(0); k < 57; k++ {
		lib = append(lib, rs("H_Lib", k, 2))
	}
	for k := int64(0); k < 30; k++ {
		if k == 13 {
			continue // bare go statements: not supported by the engine (threads only through verif.Par)
		}
		lib = append(lib, rs("H_Lang", k))
	}
	add(&PropSpec{
		ID: "SELFLIB", Title: "engine regression: library functions on symbolic strings agree with the native run (not a property)",
		Quick: lib, Thorough: lib, Covers: []string{"lib-case", "lang-case"},
		Bounds: map[string]string{"quick": "56 library call groups on 2 symbolic bytes", "thorough": "same"},
	})
	var c09long []RunSpec
	for f := int64(0); f < 19; f++ {
		c09long = append(c09long, rs("H_C09long", f, 20))
	}
	var c09long2 []RunSpec
	for f := int64(0); f < 19; f++ {
		c09long2 = append(c09long2, rs("H_C09long", f, 70))
	}
	add(&PropSpec{
		ID: "C09", Title: "lexer partitions the source into the documented tokens",
		Quick: append(append([]RunSpec{}, c09long...), []RunSpec{rs("H_C09lex", 2), rs("H_C09lex", 3), rs("H_C09", 6, 9), rs("H_C09", 0, 0), rs("H_C09", 1, 0), rs("H_C09", 2, 0), rs("H_C09", 3, 0), rs("H_C09", 3, 1), rs("H_C09", 6, 2), rs("H_C09", 5, 3), rs("H_C09", 4, 4), rs("H_C09", 4, 6), rs("H_C09", 8, 8)}...),
		Thorough: append(append([]RunSpec{}, c09long2...), []RunSpec{rs("H_C09lex", 2), rs("H_C09lex", 3), rs("H_C09lex", 4), rs("H_C09", 7, 9), rs("H_C09", 0, 0), rs("H_C09", 1, 0), rs("H_C09", 2, 0), rs("H_C09", 3, 0), rs("H_C09", 4, 0),
			rs("H_C09", 4, 1), rs("H_C09", 8, 2), rs("H_C09", 7, 3), rs("H_C09", 6, 4), rs("H_C09", 5, 6), rs("H_C09", 9, 8)}...),
		Covers: []string{"has-token", "two-tokens", "number", "string", "quoted-ident", "error-token", "ident", "float-value-checked", "hex-number", "long-checked", "integer-float-checked", "lexeme-sequences"},
		Bounds: map[string]string{"quick": "all byte strings of length <= 3 (full byte range); focused alphabets: numbers <= 3, strings/escapes <= 6, names/backticks/comments <= 5, operators <= 4, layout and odd bytes <= 4, two-literal alphabet {quote backslash t newline a} <= 8, escapes before multi-byte characters {quote backslash C3 A9 a backtick} <= 6; every sequence of <= 3 lexemes from 21 context-sensitive candidates (keywords, $left/$right, dot, signs, exponent tails, quotes, comment opener, newline) joined directly or by a space; 19 framed families: 2-3 arbitrary bytes around a run of one repeated character of every length 0..20 (hex of 1..22 digits incl. 16/17 digits and leading zeros, decimals around 2^63 and 2^64, long fractions and exponents, long strings, quoted and plain names, comments); in the numeric families the arbitrary bytes are case-split to concrete digits (64-bit conversion to decimal stalls bit-blasting)",
			"thorough": "all byte strings of length <= 4 (full byte range); numbers <= 4, strings <= 8, names <= 7, operators <= 6, layout <= 5; framed families with runs 0..70; multi-byte escapes <= 7"},
		Outside: []string{"sources longer than the bound", "BasicLit.Float64/Uint64 of float literals whose value needs more than one rounding step (decimal exponent beyond +-22 or mantissa >= 2^53); the others are decided per concrete spelling (floating point is outside the solver's theories: the spelling is enumerated, the accessor executed concretely)", "string values containing invalid UTF-8 together with an escape (don't-care)"},
		Stubs:   []string{"unicode.IsSpace -> models.IsSpace (validated against the real table)", "utf8 decode/encode: engine model of the Go specification", "strings.{TrimLeft,ReplaceAll,ContainsAny} -> models", "strconv.{ParseUint,FormatUint} -> models", "fmt.Sprintf: error texts opaque"},
	})
	deep := func(n int64, budget int, fams ...int64) []RunSpec {
		var r []RunSpec
		if len(fams) == 0 {
			for f := int64(0); f < 32; f++ {
				fams = append(fams, f)
			}
		}
		for _, f := range fams {
			r = append(r, RunSpec{Harness: "H_C12deep", Args: []int64{f, n}, Budget: budget})
		}
		return r
	}
	c12long := func(nmax int64) []RunSpec {
		var r []RunSpec
		for f := int64(0); f < 17; f++ {
			r = append(r, RunSpec{Harness: "H_C12long", Args: []int64{f, nmax}, Budget: 20000000})
		}
		return r
	}
	add(&PropSpec{
		ID: "C12", Title: "scanning, parsing and compiling are total", OwnsPanic: true,
		Quick: append(append(append(append([]RunSpec{{Harness: "H_C12letdouble", Args: []int64{30}, Budget: 3000000}}, deep(64, 25000000)...), deep(160, 60000000, 10, 13, 23, 24, 25, 26, 27)...), c12long(70)...), []RunSpec{rs("H_C12", 1, 0), rs("H_C12", 2, 0), rs("H_C12", 3, 0), rs("H_C12", 4, 7), rs("H_C12", 3, 1),
			rs("H_C12tok", 1, 2), rs("H_C12tok", 2, 2), rs("H_C12tok", 3, 2), rs("H_C12tok", 4, 2), rs("H_C12tok", 5, 4), rs("H_C12tok", 6, 4),
			rs("H_C12names", 0), rs("H_C12names", 1), rs("H_C12names", 2), rs("H_C12names", 3), rs("H_C12names", 4), rs("H_C12names", 5), rs("H_C12names", 6), rs("H_C12names", 7)}...),
		Thorough: append(append(append(deep(128, 100000000), deep(320, 100000000, 1, 2, 5, 7, 10, 11, 12, 13, 14, 23, 24, 25, 26, 27)...), c12long(300)...), []RunSpec{rs("H_C12", 1, 0), rs("H_C12", 2, 0), rs("H_C12", 3, 0), rs("H_C12", 5, 5), rs("H_C12", 5, 1), rs("H_C12", 5, 2), rs("H_C12", 5, 3),
			rs("H_C12tok", 1, 0), rs("H_C12tok", 2, 0), rs("H_C12tok", 3, 0), rs("H_C12tok", 4, 2), rs("H_C12tok", 5, 2), rs("H_C12tok", 6, 4), rs("H_C12tok", 7, 4),
			rs("H_C12names", 0), rs("H_C12names", 1), rs("H_C12names", 2), rs("H_C12names", 3), rs("H_C12names", 4), rs("H_C12names", 5), rs("H_C12names", 6), rs("H_C12names", 7)}...),
		Covers: []string{"has-token", "parsed", "parse-error", "compiled", "compile-error", "walked", "has-semicolon-token", "kilobytes", "long-bytes", "let-doubling"},
		Bounds: map[string]string{"quick": "all byte strings of length <= 3, length <= 4 over the bracket/semicolon alphabet; 8 name-collision shapes with arbitrary tokens in the name slots; all token sequences of length <= 4 over the 55-lexeme vocabulary and <= 6 over the 33-lexeme vocabulary; 6 parameter maps (one with empty and sign-only texts); the let-doubling program (30 lets each mentioning the previous binding twice: known finding); 32 families of deep/long/wide programs (erroneous cores under indexed parentheses / calls / in-lists, nested parentheses, calls, in-lists, joins with and without conditions, index and sign chains, long sums, pipelines, let chains, column lists, unbalanced and unclosed brackets, error-token runs, empty statements, single lists of many arguments / values / conditions) at nesting/repetition 64 (up to 3.5 KB; the wide ones also at 160) with two arbitrary tokens inside, each path within 25M (60M) interpreted instructions; 17 framed byte-level families (long strings, quoted names, comments, numbers, unterminated literals ending in multi-byte or stray continuation bytes) with runs of every length 0..70, alone and as a where operand",
			"thorough": "all byte strings of length <= 3, <= 5 over focused alphabets; all token sequences <= 3 over the full vocabulary, <= 5 over 55 lexemes, <= 7 over 33 lexemes; deep/long families at 128 (all) and 320 (the linear ones, up to 18 KB), each path within 100M interpreted instructions"},
		Outside: []string{"inputs beyond the bounds", "the wall-clock clause in general (a complexity claim): decided only for the listed deep/long families, as an instruction bound per path plus a native replay under a 5 s watchdog when the bound is exceeded", "step budget per path 400000 SSA instructions for the short inputs: exhaustion is replayed natively under a 5 s watchdog"},
		Stubs:   []string{"parser.Scan summarised on token-slot sources from tables derived on this run from the real Scan (one-token locality validated on all lexeme pairs)"},
	})
	add(&PropSpec{
		ID: "C15", Title: "statement splitting agrees with the lexer and loses nothing",
		Quick:    append([]RunSpec{rs("H_C15", 0, 0), rs("H_C15", 1, 0), rs("H_C15", 2, 0), rs("H_C15", 3, 0), rs("H_C15", 5, 10), rs("H_C15", 5, 11), rs("H_C15", 5, 5), rs("H_C15", 5, 7)}, tokRuns("H_C15tok", 5, 0)...),
		Thorough: append([]RunSpec{rs("H_C15", 0, 0), rs("H_C15", 1, 0), rs("H_C15", 2, 0), rs("H_C15", 3, 0), rs("H_C15", 4, 0), rs("H_C15", 6, 10), rs("H_C15", 6, 11), rs("H_C15", 7, 5), rs("H_C15", 6, 7)}, tokRuns("H_C15tok", 6, 0)...),
		Covers:   []string{"has-semicolon-token", "semicolon-inside-token-or-comment", "parsed", "two-statements"},
		Bounds: map[string]string{"quick": "all byte strings of length <= 3 (full byte range); length <= 5 over the alphabets {; ' \" ` / \\ newline a 1 = space}, {; ( ) [ ] | a 1 , ' space}, {1 e + - . ; x space} and {; ' / CR newline space a}; all token sequences of length <= 5 (statement count vs semicolon tokens)",
			"thorough": "all byte strings of length <= 4; focused alphabets <= 7 / <= 6; token sequences <= 6"},
		Outside: []string{"sources longer than the bound", "the command-line consumer (C16)"},
		Stubs:   []string{"unicode.IsSpace -> models.IsSpace", "utf8 decode: engine model", "strings.{TrimLeft,ReplaceAll} -> models"},
	})
	add(&PropSpec{
		ID: "C08", Title: "the parser accepts only what its tree represents",
		Quick:    append(tokRuns("H_C08", 6, 0), seeds("H_C08seed", 1)...),
		Thorough: append(append(tokRuns("H_C08", 7, 0), seeds("H_C08seed", 1)...), seeds("H_C08seed", 2)...),
		Covers:   []string{"accepted", "rejected"},
		Bounds: map[string]string{"quick": "all token sequences of length <= 6 over the full 78-lexeme vocabulary (error lexemes included); 21 seed programs of 6-32 tokens with one arbitrary corruption (delete / insert arbitrary token / replace by arbitrary token / duplicate / transpose / truncate at an arbitrary position)",
			"thorough": "all token sequences of length <= 7; seeds with one and two corruptions"},
		Outside: []string{"longer uncorrupted token soups", "lexeme-internal corruption (C09 covers the lexer)"},
		Stubs:   []string{tokStub},
	})
	add(&PropSpec{
		ID: "C10", Title: "source positions in tokens and syntax trees are exact",
		Quick:    append(append(append(tokRuns("H_C10", 5, 0), seeds("H_C10seed", 1)...), tokRuns("H_C10err", 4, 0)...), append(seeds("H_C10errseed", 1), rs("H_C10tab", 0), rs("H_C10tab", 1), rs("H_C10tab", 2), rs("H_C10tab", 3), rs("H_C10tab", 4), rs("H_C10tab", 5), rs("H_C10tab", 6))...),
		Thorough: append(append(append(append(tokRuns("H_C10", 6, 0), seeds("H_C10seed", 1)...), seeds("H_C10seed", 2)...), tokRuns("H_C10err", 5, 0)...), append(seeds("H_C10errseed", 2), rs("H_C10tab", 0), rs("H_C10tab", 1), rs("H_C10tab", 2), rs("H_C10tab", 3), rs("H_C10tab", 4), rs("H_C10tab", 5), rs("H_C10tab", 6))...),
		Covers:   []string{"accepted", "rejected", "spans-checked", "partial-tree", "position-checked", "compile-error-message"},
		Bounds: map[string]string{"quick": "success part: all accepted token sequences of length <= 5 over the full vocabulary and 21 seed programs with one arbitrary corruption; failure part: all rejected token sequences of length <= 4 and the rejected corruptions of the seeds: every span of the partial tree (fields and Span() of every node) and every line:column prefix of the parse and compile error messages; 7 failing programs (two with multi-byte characters ahead of the reported position, one a compile error and one a parse error) with two gaps of 2 arbitrary bytes over {space, tab, newline} (tab stops)",
			"thorough": "success <= 6, failure <= 5, seeds with one and two corruptions"},
		Outside: []string{"multi-byte layout between tokens inside token slots (token spans themselves are C09's subject)", "error messages for byte-level garbage (their texts quote symbolic runes and are opaque to the engine)"},
		Stubs:   []string{tokStub},
	})
	c11deep := func(n, wide int64) []RunSpec {
		var r []RunSpec
		for _, f := range []int64{0, 1, 2, 3, 4, 5, 8, 9, 10, 13, 15, 16, 17, 21} {
			r = append(r, RunSpec{Harness: "H_C11deep", Args: []int64{f, n}, Budget: 200000000})
		}
		for _, f := range []int64{10, 13, 23, 24, 25, 26, 27} {
			r = append(r, RunSpec{Harness: "H_C11deep", Args: []int64{f, wide}, Budget: 200000000})
		}
		return r
	}
	add(&PropSpec{
		ID: "C11", Title: "tree traversal reaches every node exactly once and never fails", OwnsPanic: true,
		Quick:    append(append(append(tokRuns("H_C11", 5, 0), seeds("H_C11seed", 1)...), rs("H_C11seed", 21, 1)), c11deep(48, 100)...),
		Thorough: append(append(append(append(tokRuns("H_C11", 6, 0), seeds("H_C11seed", 1)...), seeds("H_C11seed", 2)...), rs("H_C11seed", 21, 1), rs("H_C11seed", 21, 2)), c11deep(128, 300)...),
		Covers:   []string{"accepted", "walk-checked", "skip-checked", "history-checked", "deep-walk"},
		Bounds: map[string]string{"quick": "all accepted token sequences of length <= 5 over the full vocabulary; 21 seed programs and one with parentheses directly inside every bracket kind, each with one arbitrary corruption; the skipped node index is arbitrary; after every traversal abandoned by a panicking visitor (at the same arbitrary index) the next traversal visits the same nodes; 14 deep program families at nesting 48 and 7 wide ones (lists of 100 arguments / values / conditions / columns / operators) with two arbitrary tokens inside",
			"thorough": "length <= 6; seeds with one and two corruptions"},
		Outside: []string{"trees deeper or wider than the listed families produce"},
		Stubs:   []string{tokStub},
	})
	c07 := func(maxK, maxLadder, nCorrupt, nLayout int64) []RunSpec {
		r := tokRuns("H_C07", maxK, 0)
		for n := int64(1); n <= maxLadder; n++ {
			shapes := int64(6)
			if n >= 4 {
				shapes = 2
			}
			for sh := int64(0); sh < shapes; sh++ {
				r = append(r, rs("H_C07ladder", n, sh))
			}
		}
		for c := int64(0); c <= nCorrupt; c++ {
			for i := int64(0); i < 38; i++ {
				r = append(r, rs("H_C07seed", i, c))
			}
		}
		for i := int64(0); i < nLayout; i++ {
			r = append(r, rs("H_C07layout", i))
		}
		return r
	}
	add(&PropSpec{
		ID: "C07", Title: "the parser builds the tree the documented grammar dictates",
		Quick:    c07(5, 3, 1, 8),
		Thorough: c07(6, 5, 2, 20),
		Covers:   []string{"in-grammar", "not-in-grammar", "layout-checked", "synonyms"},
		Bounds: map[string]string{"quick": "all token sequences of length <= 5 (78 lexemes) the reference grammar derives; operator ladders with <= 3 arbitrary binary operators over 6 operand decorations (sign, call, index, parentheses, in-list); 37 seed programs plain and with one arbitrary corruption; layout: one arbitrary gap of 3 bytes over {space tab newline / NBSP} in 8 seed programs, with and without keyword synonyms",
			"thorough": "length <= 6; ladders <= 5 operators; two corruptions; layout on all 20 seeds"},
		Outside: []string{"programs longer/deeper than the bounds", "constructs deliberately not in the reference grammar (no claim either way): chained indexing a[1][2], a comma before summarize's by", "more than one non-canonical gap at a time"},
		Stubs:   []string{tokStub, "layout family uses the real lexer (nothing stubbed)"},
	})
	c05 := func(maxK, nCorrupt int64) []RunSpec {
		r := tokRuns("H_C05", maxK, 5)
		for c := int64(0); c <= nCorrupt; c++ {
			for i := int64(0); i < 38; i++ {
				r = append(r, rs("H_C05seed", i, c))
			}
		}
		for i := int64(0); i < 8; i++ {
			r = append(r, rs("H_C05names", i))
		}
		for k := int64(0); k < 5; k++ {
			r = append(r, RunSpec{Harness: "H_C05chain", Args: []int64{k, 26}, Budget: 20000000})
		}
		return r
	}
	add(&PropSpec{
		ID: "C05", Title: "successful output is exactly one well-formed SQL statement",
		Quick:    c05(5, 1),
		Thorough: c05(6, 2),
		Covers:   []string{"compiled", "compile-error", "with-ctes", "chain-checked"},
		Bounds: map[string]string{"quick": "all compiling token sequences of length <= 5 over a 64-lexeme vocabulary (every operator word, generated subquery names as identifiers); 37 seed programs plain and with one arbitrary corruption; 8 name-collision shapes with arbitrary tokens in the name slots; a user-chosen name spelled like a generated one (5 spellings) followed by 0..26 further subqueries",
			"thorough": "length <= 6; two corruptions"},
		Outside: []string{"SQL validity beyond the statement grammar (types, unknown columns)", "pass-through function names that are SQL keywords (passed through by name by contract)", "two subqueries the user gave the same name with as"},
		Stubs:   []string{tokStub},
		Assume:  []string{"independent SQL lexers (standard and ClickHouse quoting) and statement parser in harness/h/sqllex.go, sqlparse.go"},
	})
	c04 := func(maxM int64, extra int64, extraPos []int64, nlens int64) []RunSpec {
		var r []RunSpec
		const holes = 28
		// framed long contents first (cheap), then every short content
		for p := int64(0); p < holes; p++ {
			r = append(r, RunSpec{Harness: "H_C04long", Args: []int64{p, nlens}, Budget: 40000000})
		}
		for m := int64(1); m <= maxM; m++ {
			for p := int64(0); p < holes; p++ {
				if p >= 19 && m > 2 {
					continue // the added contexts: <= 2 arbitrary bytes plus the long contents
				}
				r = append(r, rs("H_C04", p, m))
			}
		}
		for p := int64(0); p < holes; p++ {
			r = append(r, rs("H_C04dict", p))
		}
		for _, p := range extraPos {
			for m := maxM + 1; m <= extra; m++ {
				r = append(r, rs("H_C04", p, m))
			}
		}
		return r
	}
	add(&PropSpec{
		ID: "C04", Title: "literals and names are transmitted as data, never as SQL syntax",
		Quick:    c04(3, 4, []int64{0, 6}, 37),
		Thorough: c04(4, 5, []int64{0, 1, 6, 13, 14, 18}, 45),
		Covers:   []string{"content-admitted", "compiled", "decoded", "long-content", "reference-value", "number-value-checked"},
		Bounds: map[string]string{"quick": "28 content positions (the 19 listed next, plus: as-name inside a join's right side and before a later join, number under a sign, number as row count, sort key name, string operand of =~, !~, != and strcat; these nine with <= 2 arbitrary bytes) and framed long contents at every position (two arbitrary bytes around a run of 'a' of length 0..20, 30..33, 62..65, 126..129, 254..257; numbers: the boundary families of C09 with runs 0..20); values are compared with the reference token language's value, not the lexer's; 19 content positions (strings in where/in/call/let/render value; backtick names as table, join table, column, project/extend/summarize alias, as name, chart type, render property, qualified part; unquoted identifier; number; implicit column name) x every content of <= 3 bytes (full byte range for quoted kinds) admitted by the real lexer inside that one token; <= 4 bytes at two positions; 19 dictionary contents (true, null, count, $left, SQL fragments, ...) at every quoted position",
			"thorough": "<= 4 bytes everywhere, <= 5 at six positions; long contents also at 1022..1025 and 4094..4097 bytes"},
		Outside: []string{"contents between the short bound and the framed long families (arbitrary bytes in the middle of a long content)", "decoding under standard-SQL rules of values containing backslashes (structure is required under both lexers, value fidelity under ClickHouse rules)"},
		Stubs:   []string{"nothing stubbed: real Scan, Parse, Compile on symbolic bytes"},
		Assume:  []string{"two independent SQL lexers (harness/h/sqllex.go); ClickHouse backslash-escape rules as transcribed there"},
	})
	c01 := func(all bool) []RunSpec {
		var r []RunSpec
		for sh := int64(0); sh < 49; sh++ {
			r = append(r, rs("H_C01", sh, 0))
		}
		for sh := int64(49); sh < 54; sh++ {
			r = append(r, rs("H_C01", sh, 10))
		}
		for sh := int64(54); sh < 70; sh++ {
			r = append(r, rs("H_C01", sh, 0))
		}
		for _, pos := range []int64{1, 3, 6, 10, 11} {
			r = append(r, rs("H_C01", 66, pos), rs("H_C01", 68, pos))
		}
		for _, sh := range []int64{54, 55, 59, 64} {
			for _, pos := range []int64{1, 6, 7, 9, 10, 11} {
				r = append(r, rs("H_C01", sh, pos))
			}
		}
		small := map[int64]bool{0: true, 4: true, 6: true, 9: true, 10: true, 13: true, 17: true, 20: true, 23: true, 26: true, 32: true, 36: true, 40: true}
		for pos := int64(1); pos < 12; pos++ {
			for sh := int64(0); sh < 49; sh++ {
				if all || small[sh] {
					r = append(r, rs("H_C01", sh, pos))
				}
			}
		}
		return r
	}
	add(&PropSpec{
		ID: "C01", Title: "scalar expressions keep their meaning when translated to SQL", OwnsPanic: true,
		Quick:    c01(false),
		Thorough: c01(true),
		Covers:   []string{"compiled", "meaning-checked", "null-free-checked"},
		Bounds: map[string]string{"quick": "65 expression shapes (conditionals with constant branches and nested conditionals; +5 join-condition shapes with one-sided and same-sided comparisons, also under not) (repeated parentheses and signs around signed, indexed, in and not operands; ladders of <= 3 binary operators, every parenthesis placement, signs, indexing, in-lists, each built-in as operand and with operator arguments, pass-through calls of arity 0-3, qualified names, constants) with every binary operator slot arbitrary over the 15 operators, in the where position; 13 of the shapes in all 12 expression positions (project, extend named/unnamed, summarize aggregate and key, sort, take, top key and count, join on, let)",
			"thorough": "all 49 shapes in all 12 positions"},
		Outside: []string{"expression trees deeper than the shapes", "the real ClickHouse evaluator: grouping is read with its operator priorities as transcribed in harness/h/sqlparse.go, operators are uninterpreted functions (so the verdict holds for every data type), coalesce / IS NULL / CASE are interpreted"},
		Stubs:   []string{tokStub},
		Assume:  []string{"ClickHouse operator priority table as transcribed (trusted)", "value algebra axioms: isNull(NULL), TRUE/FALSE not null, truth(TRUE), not truth(FALSE)"},
	})
	c06 := func() []RunSpec {
		var r []RunSpec
		for i := int64(0); i < 23; i++ {
			r = append(r, rs("H_C06", i))
		}
		for i := int64(0); i < 7; i++ {
			r = append(r, rs("H_C06ops", i))
		}
		return r
	}
	add(&PropSpec{
		ID: "C06", Title: "let bindings and parameters are substituted by the documented scoping rules",
		Quick:    c06(),
		Thorough: c06(),
		Covers:   []string{"compiled", "meaning-checked", "suffix-checked", "breaks-rule"},
		Bounds: map[string]string{"quick": "23 use sites (quoted columns named like the built-in constants; operand of each operator class, under a sign, index base and index, in-list item, call argument, row counts, sort key, join conditions, quoted / qualified / function-name / table-name / alias contexts, built-in constant and function names) x 16 let prefixes (chains of up to three lets, shadowing, parenthesised signed values, signed and compound values, parameter in a let value) x 3 suffixes (lets after the query) x 4 parameter maps (colliding with a let name, a column, built-in constants, $left); 7 shapes with every binary operator around and inside the binding arbitrary",
			"thorough": "same as quick"},
		Outside: []string{"parameter texts that are not a single SQL operand (inserted verbatim by contract)", "a bare join key that is also a binding name (the two documented rules conflict)", "more than three lets before the query"},
		Stubs:   []string{tokStub + " (operator shapes only; the use-site family runs the real lexer on concrete programs)"},
		Assume:  []string{"reference: lexical scoping evaluated on the real parser's tree (harness/h/c06.go, valmap.go); value algebra as in C01"},
	})
	add(&PropSpec{
		ID: "C16", Title: "the command-line tool compiles exactly the statements it is given", CLI: true,
		Quick:    []RunSpec{rs("H_C16", 1, 0), rs("H_C16", 2, 0), rs("H_C16", 1, 2), rs("H_C16", 2, 2), rs("H_C16lets", 4), rs("H_C16multi"), rs("H_C16multifail"), {Harness: "H_C16line5k", Budget: 80000000}, {Harness: "H_C16long", Budget: 80000000}},
		Thorough: []RunSpec{rs("H_C16", 1, 0), rs("H_C16", 2, 0), rs("H_C16", 1, 2), rs("H_C16", 2, 2), rs("H_C16", 3, 1), rs("H_C16", 3, 2), rs("H_C16lets", 4), rs("H_C16lets", 5), rs("H_C16multi"), rs("H_C16multifail"), {Harness: "H_C16line5k", Budget: 80000000}, {Harness: "H_C16long", Budget: 80000000}},
		Covers:   []string{"some-output", "some-statement-failed", "unterminated-final", "read-failure", "multi", "multi-read-failure", "line-5k", "long-line", "literal-templates", "let-chains"},
		Bounds: map[string]string{"quick": "scripts of <= 2 statement slots (9 templates: good/bad/shadowing lets, queries with and without lets, failing query, comment) x 4 separators x line break inside a statement x terminated or not x trailing newline x two read-chunk regimes x read failure at an arbitrary offset (then: non-zero status, the SQL of every statement whose line was read completely is on standard output, and standard output is a prefix of the statements' SQL); scripts of <= 2 slots over 9 templates with comment openers and semicolons inside string literals and quoted identifiers, trailing comments after a let or query (one chunk regime, no read failure); every script of 4 statements over 7 let-chain statements (definitions, redefinitions, lets capturing earlier lets, a failing let, queries using them); three input files, also with a read failure at an arbitrary offset of any of them; a script with a 9 KB line (must compile); one line of 70 KB",
			"thorough": "<= 3 statement slots (three-statement scripts without read failure and with one chunk regime)"},
		Outside: []string{"main, cobra flag parsing, os.Open/Create, -o, the terminal probe and the mapping of run's error to the exit status (I/O behind os: not encodable; four lines, read)", "an empty piece between two semicolons and an unterminated let at end of input (don't-care: the statement leaves them open)"},
		Stubs:   []string{"input = harness io.Reader with selector-chosen chunking and failure; output = strings.Builder (engine model); bufio.Scanner interpreted from its source; bytes.IndexByte modelled"},
		Assume:  []string{"oracle calls the real pql.Compile per statement with the prelude of accepted lets"},
	})
	c14 := func(full bool) []RunSpec {
		var r []RunSpec
		pairs := [][2]int64{{0, 0}, {0, 1}, {1, 2}, {2, 2}, {6, 7}, {7, 6}, {1, 7}}
		if full {
			pairs = nil
			for i := int64(0); i < 8; i++ {
				for j := int64(0); j < 8; j++ {
					pairs = append(pairs, [2]int64{i, j})
				}
			}
		}
		// cheap and independent of the schedule explosion a shared container can cause: first
		for j := int64(0); j < 14; j++ {
			r = append(r, RunSpec{Harness: "H_C14hist", Args: []int64{j}, Budget: 4000000, CrossObs: true})
		}
		for k := int64(0); k < 4; k++ {
			r = append(r, RunSpec{Harness: "H_C14perm", Args: []int64{k}, Budget: 4000000})
		}
		if !full {
			// the same program on both threads exercises every lazily initialised path twice at once
			for i := int64(0); i < 8; i++ {
				r = append(r, RunSpec{Harness: "H_C14par", Args: []int64{i, i, 0}, Budget: 4000000})
			}
		}
		for _, p := range pairs {
			r = append(r, RunSpec{Harness: "H_C14seq", Args: []int64{p[0], p[1]}, Budget: 4000000})
			r = append(r, RunSpec{Harness: "H_C14par", Args: []int64{p[0], p[1], 0}, Budget: 4000000})
			r = append(r, RunSpec{Harness: "H_C14par", Args: []int64{p[0], p[1], 1}, Budget: 4000000})
		}
		r = append(r, RunSpec{Harness: "H_C14parse", Args: []int64{0, 2}, Budget: 4000000}, RunSpec{Harness: "H_C14parse", Args: []int64{3, 5}, Budget: 4000000}, RunSpec{Harness: "H_C14parse", Args: []int64{6, 7}, Budget: 4000000})
		return r
	}
	add(&PropSpec{
		ID: "C14", Title: "compilation is a pure, deterministic, thread-safe function", Threads: true, OwnsPanic: true,
		Quick:    c14(false),
		Thorough: c14(true),
		Covers:   []string{"history-checked", "schedules-checked", "call-history-checked", "permutations-checked"},
		Bounds: map[string]string{"quick": "7 pairs from 8 programs (successes, failures with sorted-key and position texts, a failed call with an unterminated escaped literal followed by a call with an escaped literal): call histories i,j,i,j; the result of each of 14 programs (also ones whose names meet the generated subquery names) in a process that compiled nothing before equals its result after any one other of them (every path starts from the initial process state; confirmed in fresh native processes); an empty caller map stays empty and a later call does not see an earlier call's lets; nil/zero/empty options; 4 programs whose reserved-name and parameter maps have several entries under every iteration order; every iteration order of every map iterated (symbolic permutation); two concurrent Compile calls sharing their options, first use in the process (cold) and warm, every interleaving at the granularity of visible operations (sync operations and accesses to shared locations written by any explored execution); concurrent Parse/Scan",
			"thorough": "all 64 pairs from 8 programs"},
		Outside: []string{"more than two goroutines (follows from pairwise race-freedom; stated, not checked)", "the Go runtime's own scheduler and map implementation", "interleavings finer than visible operations (operations on thread-local or never-written data commute)"},
		Stubs:   []string{"sync.Once / sync.Mutex: engine models with happens-before clocks", "map iteration order: symbolic permutation"},
		Assume:  []string{"a data race is confirmed natively by the Go race detector on a -race build of the same harness"},
	})
	big := func(h string, args ...int64) RunSpec { return RunSpec{Harness: h, Args: args, Budget: 10000000} }
	add(&PropSpec{
		ID: "C02", Title: "tabular operators take effect strictly in pipeline order",
		Quick:    []RunSpec{big("H_C02", 1, 0), big("H_C02", 1, 2), big("H_C02", 2, 1), big("H_C02", 2, 2), big("H_C02", 3, 1), big("H_C02mix", 3, 2), big("H_C02limits", 2), big("H_C02limits", 3)},
		Thorough: []RunSpec{big("H_C02", 1, 0), big("H_C02", 1, 3), big("H_C02", 2, 1), big("H_C02", 2, 2), big("H_C02", 2, 3), big("H_C02", 3, 1), big("H_C02", 3, 2), big("H_C02", 4, 1), big("H_C02mix", 3, 2), big("H_C02mix", 3, 3), big("H_C02limits", 2), big("H_C02limits", 3), big("H_C02limits", 4)},
		Covers:   []string{"compiled", "results-compared", "non-empty-result", "with-ctes", "mix-checked"},
		Bounds: map[string]string{"quick": "every well-typed sequence of 3 operators over 12 templates (filters on two columns, take 1, limit 2, two sorts, top, project, summarize, extend, count, as) on every 2-row table; pairs of row limits including literals 2^32+1, 2^63, 2^64 and hexadecimal; every well-typed pipeline of <= 2 operators from 32 templates (render with several properties out of name order, repeated sort keys, where/filter, project, extend named and unnamed, summarize with and without keys, sort/order with every direction/nulls form, take/limit incl. 0, top, count, as, render with and without properties) on every table T(a,b) of <= 2 rows of nullable integers in {0,1,2}; <= 3 operators on every 1-row table; the empty table for single operators; sequences of <= 3 row limits (literals of different digit counts, leading zeros, top) on every 3-row table",
			"thorough": "<= 3 operators on <= 2 rows, <= 2 operators on 3 rows, 4 operators on 1 row; the 12-template triples on 3-row tables"},
		Outside: []string{"ClickHouse's actual executor: both sides are evaluated by reference evaluators with ordered-list semantics (every SELECT preserves its input order unless it has ORDER BY, groups in order of first appearance)", "aliases that shadow an existing column inside one SELECT (programs use fresh names)", "names of columns the program does not state (count, unnamed extend) are compared by position only", "tables wider than 2 columns, values outside {NULL,0,1,2}"},
		Stubs:   []string{"nothing stubbed in the code under test (real lexer, parser, compiler on concrete programs drawn by selectors); cell values are symbolic"},
		Assume:  []string{"reference evaluators harness/h/pipeeval.go (PQL semantics as stated in the property) and sqleval.go (SQL)"},
	})
	add(&PropSpec{
		ID: "C03", Title: "joins combine the pipeline so far with the right-hand pipeline",
		Quick:    []RunSpec{big("H_C03", 1, 3, 3, 4), big("H_C03", 2, 1, 1, 1), big("H_C03pre", 2), big("H_C03two", 0, 1), big("H_C03two", 1, 1), big("H_C03two", 2, 1), big("H_C03two", 3, 1), big("H_C03two", 4, 1), big("H_C03two", 5, 1), big("H_C03two", 6, 1), big("H_C03two", 7, 1)},
		Thorough: []RunSpec{big("H_C03", 1, 8, 5, 7), big("H_C03", 2, 2, 2, 2), big("H_C03pre", 2), big("H_C03", 2, 8, 1, 1), big("H_C03two", 0, 2), big("H_C03two", 1, 2), big("H_C03two", 2, 1), big("H_C03two", 3, 1), big("H_C03two", 4, 2), big("H_C03two", 5, 1), big("H_C03two", 6, 1), big("H_C03two", 7, 1), big("H_C03two", 8, 1)},
		Covers:   []string{"compiled", "results-compared", "non-empty-result", "join-checked"},
		Bounds: map[string]string{"quick": "one join: 4 kinds (default, inner, innerunique, leftouter) x 9 condition forms (bare key, explicit equality on the key and on other columns, two conditions, non-equi, key plus one-sided filter, right-side-first comparisons with every ordering operator) x 3 left prefixes x 3 right-hand pipelines x 4 following operators on all tables A(k,a), B(k,b) of 1 row, and the join after each of 8 left prefixes (filter, take, sort, extend, top, sort+take, filter+top) on all 2-row tables; two joins in sequence and nested in the right-hand side, all 16 kind combinations, 1-row tables (+ C(k,c)); three joins in sequence and nested three deep, all 64 kind combinations, 1-row tables (+ D(k,d))",
			"thorough": "5 prefixes x 5 right pipelines x 7 following operators on 1-row tables; 2x2x2 variants on 2-row tables; two-join shapes on 2-row tables; a third three-join shape (nested + sequential with count)"},
		Outside: []string{"ClickHouse's executor and join_use_nulls: unmatched left rows carry NULL in the right columns on both sides of the comparison", "quoted bare key names", "more than three joins"},
		Stubs:   []string{"nothing stubbed in the code under test"},
		Assume:  []string{"reference join semantics in harness/h/pipeeval.go (refJoin): inner = all matching pairs in left-major order, innerunique = after removing duplicate left rows, leftouter = plus unmatched left rows"},
	})
	seeds13 := func(n int64) []RunSpec {
		var r []RunSpec
		for i := int64(0); i < 38; i++ {
			r = append(r, rs("H_C13seed", i, n))
		}
		return r
	}
	add(&PropSpec{
		ID: "C13", Title: "Compile returns SQL or an error, and rejects every documented misuse",
		Quick:    append(append([]RunSpec{rs("H_C13a", 1, 0), rs("H_C13a", 2, 0), rs("H_C13a", 3, 5)}, tokRuns("H_C13b", 5, 0)...), seeds13(1)...),
		Thorough: append(append(append([]RunSpec{rs("H_C13a", 1, 0), rs("H_C13a", 2, 0), rs("H_C13a", 3, 0), rs("H_C13a", 5, 5)}, tokRuns("H_C13b", 6, 0)...), seeds13(1)...), seeds13(2)...),
		Covers:   []string{"accepted", "rejected", "breaks-rule", "keeps-rules", "compiled", "compile-error"},
		Bounds: map[string]string{"quick": "either/or: all byte strings of length <= 2, <= 3 focused, 6 parameter maps; exactly-when: all token sequences of length <= 5 over the full vocabulary and 38 seed programs (calls, joins, lets at depth; nested built-ins with siblings; built-ins directly under a negation; a query followed by further statements; expression constructs in every operator's argument positions) with one arbitrary corruption",
			"thorough": "bytes <= 3 (<= 5 focused); token sequences <= 6; seeds with one and two corruptions"},
		Outside: []string{"render property values (not an expression position of the rule list)", "parameter maps in the exactly-when part (covered by C06)", "programs beyond the bounds"},
		Stubs:   []string{tokStub},
		Assume:  []string{"rule predicates R1-R4 are evaluated on the real parser's tree (C07 checks the tree itself)"},
	})
	return m
}
