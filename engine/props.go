package main

// The registered bounds per property (only bounds that run clean on the unchanged tree).

func rs(h string, args ...int64) RunSpec { return RunSpec{Harness: h, Args: args} }

func propSpecs() map[string]*PropSpec {
	m := map[string]*PropSpec{}
	add := func(p *PropSpec) { m[p.ID] = p }
	add(&PropSpec{
		ID: "C09", Title: "lexer partitions the source into the documented tokens",
		Quick: []RunSpec{rs("H_C09", 0, 0), rs("H_C09", 1, 0), rs("H_C09", 2, 0), rs("H_C09", 3, 1), rs("H_C09", 3, 2), rs("H_C09", 3, 3), rs("H_C09", 3, 4)},
		Thorough: []RunSpec{rs("H_C09", 0, 0), rs("H_C09", 1, 0), rs("H_C09", 2, 0), rs("H_C09", 3, 0),
			rs("H_C09", 5, 1), rs("H_C09", 5, 2), rs("H_C09", 5, 3), rs("H_C09", 5, 4), rs("H_C09", 4, 6)},
		Covers: []string{"has-token", "two-tokens", "number", "string", "quoted-ident", "error-token", "ident"},
		Bounds: map[string]string{"quick": "all byte strings of length <= 2 (full byte range); length <= 3 over the focused alphabets numbers/strings/names/operators",
			"thorough": "all byte strings of length <= 3 (full byte range); length <= 5 over the focused alphabets; length <= 4 over the layout alphabet"},
		Outside: []string{"sources longer than the bound", "BasicLit.Float64 and Uint64 of float literals (floating point)", "string values containing invalid UTF-8 together with an escape (don't-care)", "extent of the error token for '!' followed by another character (don't-care)"},
		Stubs:   []string{"unicode.IsSpace -> models.IsSpace (validated against the real table)", "utf8 decode/encode: engine model of the Go specification", "strings.{TrimLeft,ReplaceAll,ContainsAny} -> models", "strconv.{ParseUint,FormatUint} -> models", "fmt.Sprintf: error texts opaque"},
	})
	add(&PropSpec{
		ID: "C12", Title: "scanning, parsing and compiling are total", OwnsPanic: true,
		Quick: []RunSpec{rs("H_C12", 1, 0), rs("H_C12", 2, 0), rs("H_C12", 3, 5), rs("H_C12", 3, 1),
			rs("H_C12tok", 1, 2), rs("H_C12tok", 2, 2), rs("H_C12tok", 3, 2), rs("H_C12tok", 4, 2), rs("H_C12tok", 5, 4), rs("H_C12tok", 6, 4)},
		Thorough: []RunSpec{rs("H_C12", 1, 0), rs("H_C12", 2, 0), rs("H_C12", 3, 0), rs("H_C12", 5, 5), rs("H_C12", 5, 1), rs("H_C12", 5, 2), rs("H_C12", 5, 3),
			rs("H_C12tok", 1, 0), rs("H_C12tok", 2, 0), rs("H_C12tok", 3, 0), rs("H_C12tok", 4, 2), rs("H_C12tok", 5, 2), rs("H_C12tok", 6, 4), rs("H_C12tok", 7, 4)},
		Covers: []string{"has-token", "parsed", "parse-error", "compiled", "compile-error", "walked", "has-semicolon-token"},
		Bounds: map[string]string{"quick": "all byte strings of length <= 2, length <= 3 over two focused alphabets; all token sequences of length <= 4 over the 55-lexeme vocabulary and <= 6 over the 33-lexeme vocabulary; 5 parameter maps",
			"thorough": "all byte strings of length <= 3, <= 5 over focused alphabets; all token sequences <= 3 over the full vocabulary, <= 5 over 55 lexemes, <= 7 over 33 lexemes"},
		Outside: []string{"inputs beyond the bounds", "the wall-clock clause (within seconds for KiB inputs): a complexity claim, not decided by bounded symbolic execution", "step budget per path 300000 SSA instructions: exhaustion is replayed natively under a 5 s watchdog"},
		Stubs:   []string{"parser.Scan summarised on token-slot sources from tables derived on this run from the real Scan (one-token locality validated on all lexeme pairs)"},
	})
	add(&PropSpec{
		ID: "C15", Title: "statement splitting agrees with the lexer and loses nothing",
		Quick:    []RunSpec{rs("H_C15", 0, 0), rs("H_C15", 1, 0), rs("H_C15", 2, 0), rs("H_C15", 4, 5)},
		Thorough: []RunSpec{rs("H_C15", 0, 0), rs("H_C15", 1, 0), rs("H_C15", 2, 0), rs("H_C15", 3, 0), rs("H_C15", 6, 5)},
		Covers:   []string{"has-semicolon-token", "semicolon-inside-token-or-comment", "parsed", "two-statements"},
		Bounds: map[string]string{"quick": "all byte strings of length <= 2 (full byte range); length <= 4 over the alphabet ; ' \" ` / \\ newline a 1 = space",
			"thorough": "all byte strings of length <= 3 (full byte range); length <= 6 over the splitting alphabet"},
		Outside: []string{"sources longer than the bound", "the command-line consumer (C16)"},
		Stubs:   []string{"unicode.IsSpace -> models.IsSpace", "utf8 decode: engine model", "strings.{TrimLeft,ReplaceAll} -> models"},
	})
	return m
}
