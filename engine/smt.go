package main

// Long-lived SMT solver processes speaking SMT-LIB2 over pipes.

import (
	"bufio"
	"fmt"
	"io"
	"os"
	"os/exec"
	"sort"
	"strconv"
	"strings"
	"time"
)

var slowQ = func() time.Duration { d, _ := time.ParseDuration(os.Getenv("GOSYM_SLOWQ")); return d }()

type Verdict int

const (
	Unsat Verdict = iota
	Sat
	Unknown // includes timeouts and solver errors: always inconclusive
)

func (v Verdict) String() string { return [...]string{"unsat", "sat", "unknown"}[v] }

type SolverStats struct {
	Queries  int
	Sat      int
	Unsat    int
	Unknown  int
	Errors   int
	CacheHit int
	Wall     time.Duration
}

func (a *SolverStats) add(b SolverStats) {
	a.Queries += b.Queries
	a.Sat += b.Sat
	a.Unsat += b.Unsat
	a.Unknown += b.Unknown
	a.Errors += b.Errors
	a.CacheHit += b.CacheHit
	a.Wall += b.Wall
}

type Solver struct {
	name    string
	argv    []string
	cmd     *exec.Cmd
	in      *bufio.Writer
	inRaw   io.WriteCloser
	out     *bufio.Reader
	ts      *TermStore
	defined map[int]bool
	nvars   int
	nufs    int
	stats   SolverStats
	cache   map[string]cacheEnt
	lastErr string
	timeout int // ms
	seed    int
	log     io.Writer
}

func solverArgv(kind string) []string {
	switch kind {
	case "z3":
		return []string{"z3", "-in"}
	case "z3-new":
		return []string{"z3-new", "-in"}
	case "cvc5":
		return []string{"cvc5", "--incremental", "--lang=smt2", "--produce-models"}
	}
	panic("unknown solver " + kind)
}

func NewSolver(kind string, ts *TermStore, timeoutMs, seed int) *Solver {
	s := &Solver{name: kind, argv: solverArgv(kind), ts: ts, cache: map[string]cacheEnt{}, timeout: timeoutMs, seed: seed}
	s.start()
	return s
}

func (s *Solver) start() {
	cmd := exec.Command(s.argv[0], s.argv[1:]...)
	inp, err := cmd.StdinPipe()
	if err != nil {
		panic(err)
	}
	outp, err := cmd.StdoutPipe()
	if err != nil {
		panic(err)
	}
	cmd.Stderr = cmd.Stdout
	if err := cmd.Start(); err != nil {
		panic(fmt.Sprintf("cannot start solver %v: %v", s.argv, err))
	}
	s.cmd = cmd
	s.inRaw = inp
	s.in = bufio.NewWriterSize(inp, 1<<16)
	s.out = bufio.NewReaderSize(outp, 1<<16)
	s.defined = map[int]bool{}
	s.nvars = 0
	s.nufs = 0
	if s.name == "cvc5" {
		s.send("(set-logic ALL)")
		s.send(fmt.Sprintf("(set-option :tlimit-per %d)", s.timeout))
	} else {
		s.send(fmt.Sprintf("(set-option :timeout %d)", s.timeout))
		if s.seed != 0 {
			s.send(fmt.Sprintf("(set-option :smt.random_seed %d)", s.seed))
			s.send(fmt.Sprintf("(set-option :sat.random_seed %d)", s.seed))
		}
	}
	s.send("(declare-sort Val 0)")
	s.send(valPrelude)
}

func (s *Solver) Close() {
	if s.cmd != nil {
		s.inRaw.Close()
		s.cmd.Process.Kill()
		s.cmd.Wait()
		s.cmd = nil
	}
}

func (s *Solver) send(line string) {
	if s.log != nil {
		fmt.Fprintln(s.log, line)
	}
	s.in.WriteString(line)
	s.in.WriteByte('\n')
}

func (s *Solver) readLine() (string, error) {
	line, err := s.out.ReadString('\n')
	return strings.TrimSpace(line), err
}

// sync declares everything the given terms need.
func (s *Solver) sync(terms []*Term) {
	for s.nvars < len(s.ts.vars) {
		v := s.ts.vars[s.nvars]
		s.send(fmt.Sprintf("(declare-const %s %s)", v.name, sortName(v.bits)))
		s.nvars++
	}
	for s.nufs < len(s.ts.ufList) {
		name := s.ts.ufList[s.nufs]
		sig := s.ts.ufs[name]
		if name == "isNull" || name == "truth" || name == "VNULL" || name == "VTRUE" || name == "VFALSE" {
			s.nufs++
			continue
		}
		args := strings.TrimSpace(strings.Repeat("Val ", sig.nargs))
		s.send(fmt.Sprintf("(declare-fun %s (%s) %s)", name, args, sortName(sig.ret)))
		s.nufs++
	}
	for _, t := range terms {
		s.define(t)
	}
}

func (s *Solver) define(t *Term) {
	if t.op == OpVar || t.op == OpConst || s.defined[t.id] {
		return
	}
	// iterative post-order to avoid deep recursion
	type fr struct {
		t *Term
		i int
	}
	st := []fr{{t, 0}}
	for len(st) > 0 {
		f := &st[len(st)-1]
		if f.i < len(f.t.args) {
			a := f.t.args[f.i]
			f.i++
			if a.op != OpVar && a.op != OpConst && !s.defined[a.id] {
				st = append(st, fr{a, 0})
			}
			continue
		}
		if !s.defined[f.t.id] {
			s.send(fmt.Sprintf("(define-fun t%d () %s %s)", f.t.id, sortName(f.t.bits), f.t.body()))
			s.defined[f.t.id] = true
		}
		st = st[:len(st)-1]
	}
}

func cacheKey(cs []*Term) string {
	ids := make([]int, len(cs))
	for i, c := range cs {
		ids[i] = c.id
	}
	sort.Ints(ids)
	var sb strings.Builder
	for _, id := range ids {
		sb.WriteString(strconv.Itoa(id))
		sb.WriteByte(',')
	}
	return sb.String()
}

type cacheEnt struct {
	v Verdict
	m map[string]uint64
}

// Check decides satisfiability of the conjunction of cs (with result cache).
func (s *Solver) Check(cs []*Term) Verdict {
	v, _ := s.CheckModel(cs)
	return v
}

// CheckModel is Check that also returns, when sat, values for the variables occurring in cs.
func (s *Solver) CheckModel(cs []*Term) (Verdict, map[string]uint64) {
	key := cacheKey(cs)
	if e, ok := s.cache[key]; ok {
		s.stats.CacheHit++
		return e.v, e.m
	}
	var vs varset
	for _, c := range cs {
		vs = vs.union(c.vars)
	}
	var vars []*Term
	for _, i := range vs.list() {
		vars = append(vars, s.ts.vars[i])
	}
	v, m := s.query(cs, vars)
	s.cache[key] = cacheEnt{v, m}
	return v, m
}

// Model decides satisfiability and, when sat, returns values for the requested variables.
func (s *Solver) Model(cs []*Term, vars []*Term) (Verdict, map[string]uint64) {
	return s.query(cs, vars)
}

func (s *Solver) query(cs []*Term, vars []*Term) (Verdict, map[string]uint64) {
	t0 := time.Now()
	defer func() { s.stats.Wall += time.Since(t0) }()
	s.stats.Queries++
	s.sync(cs)
	s.send("(push 1)")
	for _, c := range cs {
		s.send("(assert " + c.ref() + ")")
	}
	s.send("(check-sat)")
	if err := s.in.Flush(); err != nil {
		s.restart("flush: " + err.Error())
		return Unknown, nil
	}
	line, err := s.readLine()
	if err != nil {
		s.restart("read: " + err.Error())
		return Unknown, nil
	}
	var v Verdict
	switch line {
	case "sat":
		v = Sat
		s.stats.Sat++
	case "unsat":
		v = Unsat
		s.stats.Unsat++
	case "unknown", "timeout":
		v = Unknown
		s.stats.Unknown++
	default:
		// (error ...) or anything unexpected: inconclusive; resynchronise by restarting.
		s.lastErr = line
		s.restart("unexpected solver output: " + line)
		return Unknown, nil
	}
	if slowQ > 0 && time.Since(t0) > slowQ {
		var sb strings.Builder
		for _, c := range cs {
			sb.WriteString(s.ts.Show(c))
			sb.WriteString(" ;; ")
		}
		fmt.Fprintf(os.Stderr, "SLOWQ %.1fms %s n=%d: %s\n", float64(time.Since(t0).Microseconds())/1000, line, len(cs), sb.String())
	}
	var model map[string]uint64
	if v == Sat && len(vars) > 0 {
		model = map[string]uint64{}
		// ask in chunks to keep lines short
		for i := 0; i < len(vars); i += 64 {
			j := i + 64
			if j > len(vars) {
				j = len(vars)
			}
			var sb strings.Builder
			sb.WriteString("(get-value (")
			for _, x := range vars[i:j] {
				sb.WriteString(x.name + " ")
			}
			sb.WriteString("))")
			s.send(sb.String())
			s.in.Flush()
			txt, err := s.readSexp()
			if err != nil || strings.HasPrefix(txt, "(error") {
				s.restart("get-value: " + txt)
				return Unknown, nil
			}
			parseModel(txt, model)
		}
	}
	s.send("(pop 1)")
	return v, model
}

func (s *Solver) restart(why string) {
	s.stats.Errors++
	s.lastErr = why
	s.Close()
	s.start()
}

// readSexp reads one balanced s-expression from the solver.
func (s *Solver) readSexp() (string, error) {
	var sb strings.Builder
	depth := 0
	started := false
	for {
		c, err := s.out.ReadByte()
		if err != nil {
			return sb.String(), err
		}
		sb.WriteByte(c)
		switch c {
		case '(':
			depth++
			started = true
		case ')':
			depth--
		}
		if started && depth == 0 {
			// consume rest of line
			for {
				b, err := s.out.ReadByte()
				if err != nil || b == '\n' {
					break
				}
			}
			return sb.String(), nil
		}
	}
}

// parseModel reads "((x #x01) (y true) ...)" into m.
func parseModel(txt string, m map[string]uint64) {
	txt = strings.NewReplacer("\n", " ", "\r", " ").Replace(txt)
	// tokens
	f := strings.Fields(strings.NewReplacer("(", " ( ", ")", " ) ").Replace(txt))
	for i := 0; i+2 < len(f); i++ {
		if f[i] != "(" || f[i+1] == "(" || f[i+1] == ")" {
			continue
		}
		name := f[i+1]
		val := f[i+2]
		switch {
		case strings.HasPrefix(val, "#x"):
			u, err := strconv.ParseUint(val[2:], 16, 64)
			if err == nil {
				m[name] = u
			}
		case strings.HasPrefix(val, "#b"):
			u, err := strconv.ParseUint(val[2:], 2, 64)
			if err == nil {
				m[name] = u
			}
		case val == "true":
			m[name] = 1
		case val == "false":
			m[name] = 0
		case val == "(" && i+4 < len(f) && f[i+3] == "_" && strings.HasPrefix(f[i+4], "bv"):
			u, err := strconv.ParseUint(f[i+4][2:], 10, 64)
			if err == nil {
				m[name] = u
			}
		}
	}
}
