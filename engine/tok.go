package main

// Input model (B): token slots with a summarised lexer.
//
// verif.Tokens(k, vocab) yields a source of k fixed-width slots; slot i holds
// vocab[sel_i] followed by padding ending in a newline. parser.Scan on exactly
// that source is summarised: token i has Kind/Value/Span given as terms over
// sel_i. The per-lexeme facts are DERIVED on every run from the current tree's
// real Scan (interpreted concretely), and one-token locality is validated on
// every ordered pair of lexemes.

import (
	"fmt"
	"go/types"
	"strings"
	"sync"

	"golang.org/x/tools/go/ssa"
)

type tokEntry struct {
	lexeme     string
	ok         bool // lexes to exactly one token inside its slot
	kind       int64
	value      string
	start, end int // span relative to slot start
	opaqueVal  bool
}

type TokModel struct {
	vocab    []string
	entries  []tokEntry
	width    int
	usable   bool // locality holds for all pairs of ok entries
	dropped  []string
	pairsRun int
	why      string
}

type tokSrc struct {
	model *TokModel
	k     int
	sels  []*Term
	str   *SymStr
	ends  []*Term // absolute end offset of token i (BV64)
}

var tokModelMu sync.Mutex

func vocabKey(v []string) string { return strings.Join(v, "\x00") }

func slotText(lex string, w int) string {
	return lex + strings.Repeat(" ", w-len(lex)-1) + "\n"
}

// tokModelFor derives (once per process and vocabulary) the summary tables from the real lexer.
func (ex *Exec) tokModelFor(vocab []string) *TokModel {
	key := vocabKey(vocab)
	tokModelMu.Lock()
	defer tokModelMu.Unlock()
	if ex.eng.tokModels == nil {
		ex.eng.tokModels = map[string]*TokModel{}
	}
	if m, ok := ex.eng.tokModels[key]; ok {
		return m
	}
	m := &TokModel{vocab: vocab, usable: true}
	w := 0
	for _, l := range vocab {
		if len(l) > w {
			w = len(l)
		}
	}
	m.width = w + 2
	scanFn := ex.eng.funcByName(repoModule + "/parser.Scan")
	if scanFn == nil {
		m.usable = false
		m.why = "parser.Scan not found"
		ex.eng.tokModels[key] = m
		return m
	}
	savedSteps, savedBudget := ex.steps, ex.budget
	ex.budget = 1 << 60
	type tk struct {
		kind       int64
		start, end int
		value      Value
	}
	scan := func(src string) ([]tk, bool) {
		var out []tk
		ok := true
		func() {
			defer func() {
				if r := recover(); r != nil {
					if _, isEnd := r.(pathEnd); isEnd {
						panic(r)
					}
					ok = false // lexer panicked on this text: not usable for the summary (C12 finds it on bytes)
				}
			}()
			res := ex.invoke(scanFn, []Value{src}, nil, nil)
			sl, _ := res.(Slice)
			for _, t := range sl {
				st := t.(Struct)
				sp := st[1].(Struct)
				k, _ := st[0].(int64)
				s, _ := sp[0].(int64)
				e, _ := sp[1].(int64)
				out = append(out, tk{kind: k, start: int(s), end: int(e), value: ex.forceStr(st[2])})
			}
		}()
		return out, ok
	}
	for _, l := range vocab {
		e := tokEntry{lexeme: l}
		toks, ok := scan(slotText(l, m.width))
		if ok && len(toks) == 1 {
			e.ok = true
			e.kind = toks[0].kind
			e.start, e.end = toks[0].start, toks[0].end
			if s, isStr := toks[0].value.(string); isStr {
				e.value = s
			} else {
				e.opaqueVal = true
			}
			if e.kind == -1 {
				e.opaqueVal = true
				e.value = ""
			}
		} else {
			m.dropped = append(m.dropped, l)
		}
		m.entries = append(m.entries, e)
	}
	// locality: every ordered pair of slots scans to the concatenation of its parts
	for i, a := range m.entries {
		if !a.ok {
			continue
		}
		for j, b := range m.entries {
			if !b.ok {
				continue
			}
			toks, ok := scan(slotText(a.lexeme, m.width) + slotText(b.lexeme, m.width))
			m.pairsRun++
			good := ok && len(toks) == 2 &&
				toks[0].kind == a.kind && toks[0].start == a.start && toks[0].end == a.end &&
				toks[1].kind == b.kind && toks[1].start == b.start+m.width && toks[1].end == b.end+m.width
			if good && !a.opaqueVal {
				s, _ := toks[0].value.(string)
				good = s == a.value
			}
			if good && !b.opaqueVal {
				s, _ := toks[1].value.(string)
				good = s == b.value
			}
			if !good {
				m.usable = false
				m.why = fmt.Sprintf("lexemes %q and %q do not scan independently (entries %d,%d)", a.lexeme, b.lexeme, i, j)
			}
		}
	}
	ex.steps, ex.budget = savedSteps, savedBudget
	ex.eng.tokModels[key] = m
	return m
}

// newTokSrc builds the symbolic source for k slots.
func (ex *Exec) newTokSrc(k int, vocab []string, fixed []int) Value {
	m := ex.tokModelFor(vocab)
	if !m.usable {
		panic(ex.unsupported("token summary unusable: " + m.why))
	}
	ts := ex.ts
	src := &tokSrc{model: m, k: k}
	var bytes []Value
	for i := 0; i < k; i++ {
		var sel *Term
		if fixed != nil && fixed[i] >= 0 {
			if fixed[i] >= len(vocab) || !m.entries[fixed[i]].ok {
				panic(pathEnd{kind: "assume", msg: "fixed slot lexeme is not a single token on this tree"})
			}
			sel = ts.Const(uint64(fixed[i]), 8)
		} else {
			sel = ex.freshVar("tok", 8)
			ex.inputs = append(ex.inputs, inputRec{Kind: "tok", Terms: []*Term{sel}, Table: vocab})
			ex.addPC(ts.Bin(OpULt, sel, ts.Const(uint64(len(vocab)), 8)))
			for j, e := range m.entries {
				if !e.ok {
					ex.addPC(ts.Not(ts.Eq(sel, ts.Const(uint64(j), 8))))
				}
			}
		}
		src.sels = append(src.sels, sel)
		// bytes of the slot
		for off := 0; off < m.width; off++ {
			// group selector values by the byte at this offset
			groups := map[byte][]int{}
			var order []byte
			for j, e := range m.entries {
				if !e.ok {
					continue
				}
				b := slotText(e.lexeme, m.width)[off]
				if _, seen := groups[b]; !seen {
					order = append(order, b)
				}
				groups[b] = append(groups[b], j)
			}
			if len(order) == 1 {
				bytes = append(bytes, int64(order[0]))
				continue
			}
			// the most common byte is the default
			def := order[0]
			for _, b := range order {
				if len(groups[b]) > len(groups[def]) {
					def = b
				}
			}
			t := ts.Const(uint64(def), 8)
			for _, b := range order {
				if b == def {
					continue
				}
				t = ts.Ite(ex.selIn(sel, groups[b]), ts.Const(uint64(b), 8), t)
			}
			bytes = append(bytes, t)
		}
		// end offset of the token
		base := i * m.width
		endT := ex.selTable(sel, m, func(e tokEntry) uint64 { return uint64(base + e.end) }, 64)
		src.ends = append(src.ends, endT)
	}
	src.str = &SymStr{b: bytes}
	ex.tokSrc = src
	if k == 0 {
		return ""
	}
	return src.str
}

// selIn is the condition "sel is one of idxs" as a compact term (bit test on a constant mask).
func (ex *Exec) selIn(sel *Term, idxs []int) *Term {
	ts := ex.ts
	if len(idxs) <= 2 {
		c := ts.ff
		for _, j := range idxs {
			c = ts.Or(c, ts.Eq(sel, ts.Const(uint64(j), sel.bits)))
		}
		return c
	}
	var lo, hi uint64
	for _, j := range idxs {
		if j < 64 {
			lo |= 1 << uint(j)
		} else {
			hi |= 1 << uint(j-64)
		}
	}
	s64 := ts.Resize(sel, 64, false)
	bit := func(m uint64, sh *Term) *Term {
		return ts.Eq(ts.Resize(ts.Bin(OpLShr, ts.Const(m, 64), sh), 1, false), ts.Const(1, 1))
	}
	c := ts.ff
	if lo != 0 {
		c = ts.And(ts.Bin(OpULt, s64, ts.Const(64, 64)), bit(lo, s64))
	}
	if hi != 0 {
		c = ts.Or(c, ts.And(ts.Not(ts.Bin(OpULt, s64, ts.Const(64, 64))), bit(hi, ts.Bin(OpSub, s64, ts.Const(64, 64)))))
	}
	return c
}

// selTable builds the term f(entry[sel]) as an ite chain grouped by result value.
func (ex *Exec) selTable(sel *Term, m *TokModel, f func(tokEntry) uint64, bits int) *Term {
	ts := ex.ts
	groups := map[uint64][]int{}
	var order []uint64
	for j, e := range m.entries {
		if !e.ok {
			continue
		}
		v := f(e) & mask(bits)
		if _, seen := groups[v]; !seen {
			order = append(order, v)
		}
		groups[v] = append(groups[v], j)
	}
	if len(order) == 0 {
		return ts.Const(0, bits)
	}
	def := order[0]
	for _, v := range order {
		if len(groups[v]) > len(groups[def]) {
			def = v
		}
	}
	t := ts.Const(def, bits)
	for _, v := range order {
		if v == def {
			continue
		}
		t = ts.Ite(ex.selIn(sel, groups[v]), ts.Const(v, bits), t)
	}
	return t
}

// scanSummary returns the tokens of the slot source without running the lexer.
func (ex *Exec) scanSummary(src *tokSrc, tokenType types.Type) Value {
	m := src.model
	out := make(Slice, src.k)
	for i := 0; i < src.k; i++ {
		sel := src.sels[i]
		base := i * m.width
		kind := ex.selTable(sel, m, func(e tokEntry) uint64 { return uint64(e.kind) }, 64)
		start := ex.selTable(sel, m, func(e tokEntry) uint64 { return uint64(base + e.start) }, 64)
		table := make([]string, len(m.entries))
		for j, e := range m.entries {
			table[j] = e.value
		}
		var val Value = &VStr{sel: sel, table: table}
		if sel.isConst() && int(sel.val) < len(table) {
			val = table[sel.val]
		}
		out[i] = Struct{ex.simp(kind), Struct{ex.simp(start), ex.simp(src.ends[i])}, val}
	}
	return out
}

func registerTok(e *Engine, reg func(string, intrinsic)) {
	reg(verifPkg+".Tokens", func(ex *Exec, fn *ssa.Function, a []Value) Value {
		k := ex.concreteInt(a[0], types.Typ[types.Int])
		vs, _ := a[1].(Slice)
		vocab := make([]string, len(vs))
		for i, v := range vs {
			s, ok := ex.forceStr(v).(string)
			if !ok {
				panic(ex.unsupported("Tokens with symbolic vocabulary"))
			}
			vocab[i] = s
		}
		return ex.newTokSrc(k, vocab, nil)
	})
	reg(verifPkg+".TokenSeq", func(ex *Exec, fn *ssa.Function, a []Value) Value {
		vs, _ := a[0].(Slice)
		vocab := make([]string, len(vs))
		for i, v := range vs {
			s, ok := ex.forceStr(v).(string)
			if !ok {
				panic(ex.unsupported("TokenSeq with symbolic vocabulary"))
			}
			vocab[i] = s
		}
		fs, _ := a[1].(Slice)
		fixed := make([]int, len(fs))
		for i, f := range fs {
			fixed[i] = ex.concreteInt(f, types.Typ[types.Int])
		}
		return ex.newTokSrc(len(fixed), vocab, fixed)
	})
	reg(repoModule+"/parser.Scan", func(ex *Exec, fn *ssa.Function, a []Value) Value {
		if ex.tokSrc != nil && !ex.noSummary {
			if s, ok := a[0].(*SymStr); ok && s == ex.tokSrc.str {
				ex.summaryHits++
				return ex.scanSummary(ex.tokSrc, nil)
			}
		}
		return ex.invoke(fn, a, nil, nil)
	})
}

// sliceTokSrc handles source[lo:hi] on the slot source with a symbolic hi that is a token end.
func (ex *Exec) sliceTokSrc(s *SymStr, lo int, hi *Term) (Value, bool) {
	src := ex.tokSrc
	if src == nil || s != src.str {
		return nil, false
	}
	m := src.model
	for i := 0; i < src.k; i++ {
		if src.ends[i] != hi {
			continue
		}
		base := i * m.width
		// all entries must start at the slot start for the text to be the lexeme itself
		if lo != base {
			return nil, false
		}
		table := make([]string, len(m.entries))
		for j, e := range m.entries {
			if e.ok && e.start == 0 {
				table[j] = slotText(e.lexeme, m.width)[:e.end]
			} else if e.ok {
				return nil, false
			}
		}
		return &VStr{sel: src.sels[i], table: table}, true
	}
	return nil, false
}
