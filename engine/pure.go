package main

// If-conversion of pure acyclic leaf functions: evaluated block by block under
// guard terms, yielding ite terms instead of forking. Same SSA, different
// evaluation order; sound because such functions have no effects and cannot panic.

import (
	"go/token"
	"go/types"

	"golang.org/x/tools/go/ssa"
)

func (e *Engine) isPure(fn *ssa.Function) bool {
	if v, ok := e.pureCache.Load(fn); ok {
		return v.(bool)
	}
	r := e.computePure(fn, map[*ssa.Function]bool{})
	e.pureCache.Store(fn, r)
	return r
}

func scalarType(t types.Type) bool {
	if _, _, ok := intKind(t); ok {
		return true
	}
	if isBool(t) {
		return true
	}
	if st, ok := t.Underlying().(*types.Struct); ok {
		for i := 0; i < st.NumFields(); i++ {
			if !scalarType(st.Field(i).Type()) {
				return false
			}
		}
		return true
	}
	return false
}

func (e *Engine) computePure(fn *ssa.Function, visiting map[*ssa.Function]bool) bool {
	if fn.Blocks == nil || fn.Recover != nil || visiting[fn] {
		return false
	}
	if len(fn.FreeVars) > 0 {
		return false
	}
	if e.intrinsicFor(fn) != nil || e.redirectFor(fn) != nil {
		return false
	}
	for _, p := range fn.Params {
		if !scalarType(p.Type()) {
			return false
		}
	}
	res := fn.Signature.Results()
	for i := 0; i < res.Len(); i++ {
		if !scalarType(res.At(i).Type()) {
			return false
		}
	}
	visiting[fn] = true
	defer delete(visiting, fn)
	// acyclic: every edge goes to a block later in a topological order
	order, ok := topoOrder(fn)
	if !ok {
		return false
	}
	_ = order
	for _, b := range fn.Blocks {
		for _, ins := range b.Instrs {
			switch ins := ins.(type) {
			case *ssa.BinOp:
				if ins.Op == token.QUO || ins.Op == token.REM {
					return false
				}
				if !scalarType(ins.X.Type()) {
					return false
				}
			case *ssa.UnOp:
				if ins.Op == token.MUL || ins.Op == token.ARROW {
					return false
				}
			case *ssa.Convert:
				if _, _, ok := intKind(ins.X.Type()); !ok {
					return false
				}
				if _, _, ok := intKind(ins.Type()); !ok {
					return false
				}
			case *ssa.ChangeType, *ssa.Phi, *ssa.If, *ssa.Jump, *ssa.Return, *ssa.DebugRef:
			case *ssa.Field:
				if !scalarType(ins.X.Type()) {
					return false
				}
			case *ssa.Call:
				callee := ins.Call.StaticCallee()
				if callee == nil || ins.Call.IsInvoke() {
					return false
				}
				if !e.computePure(callee, visiting) {
					return false
				}
			default:
				return false
			}
		}
	}
	return true
}

func topoOrder(fn *ssa.Function) ([]*ssa.BasicBlock, bool) {
	state := make([]int8, len(fn.Blocks))
	var order []*ssa.BasicBlock
	ok := true
	var visit func(b *ssa.BasicBlock)
	visit = func(b *ssa.BasicBlock) {
		if state[b.Index] == 1 {
			ok = false
			return
		}
		if state[b.Index] == 2 {
			return
		}
		state[b.Index] = 1
		for _, s := range b.Succs {
			visit(s)
		}
		state[b.Index] = 2
		order = append(order, b)
	}
	visit(fn.Blocks[0])
	// reverse postorder
	for i, j := 0, len(order)-1; i < j; i, j = i+1, j-1 {
		order[i], order[j] = order[j], order[i]
	}
	return order, ok
}

func (ex *Exec) mergeVal(c *Term, a, b Value, t types.Type) Value {
	if sa, ok := a.(Struct); ok {
		sb := b.(Struct)
		st := t.Underlying().(*types.Struct)
		r := make(Struct, len(sa))
		for i := range sa {
			r[i] = ex.mergeVal(c, sa[i], sb[i], st.Field(i).Type())
		}
		return r
	}
	if !isSym(a) && !isSym(b) && a == b {
		return a
	}
	return ex.simp(ex.ts.Ite(c, ex.toTerm(a, t), ex.toTerm(b, t)))
}

func isSym(v Value) bool { _, ok := v.(*Term); return ok }

func (ex *Exec) evalPure(fn *ssa.Function, args []Value) (Value, bool) {
	order, _ := topoOrder(fn)
	ts := ex.ts
	env := map[ssa.Value]Value{}
	for i, p := range fn.Params {
		env[p] = args[i]
	}
	get := func(v ssa.Value) Value {
		switch v := v.(type) {
		case *ssa.Const:
			return ex.constValue(v)
		}
		return env[v]
	}
	guard := map[*ssa.BasicBlock]*Term{fn.Blocks[0]: ts.tt}
	edgeGuard := map[cfgEdge]*Term{}
	type ret struct {
		g *Term
		v Value
	}
	var rets []ret
	for _, b := range order {
		g := guard[b]
		if g == nil || g.isFalse() {
			continue
		}
		for _, ins := range b.Instrs {
			ex.steps++
			switch ins := ins.(type) {
			case *ssa.DebugRef:
			case *ssa.BinOp:
				env[ins] = ex.binop(ins.Op, ins.X.Type(), get(ins.X), get(ins.Y))
			case *ssa.UnOp:
				env[ins] = ex.unop(ins, get(ins.X))
			case *ssa.Convert:
				env[ins] = ex.convert(ins.X.Type(), ins.Type(), get(ins.X))
			case *ssa.ChangeType:
				env[ins] = get(ins.X)
			case *ssa.Field:
				env[ins] = get(ins.X).(Struct)[ins.Field]
			case *ssa.Call:
				callee := ins.Call.StaticCallee()
				cargs := make([]Value, len(ins.Call.Args))
				for i, a := range ins.Call.Args {
					cargs[i] = get(a)
				}
				if anySymbolic(cargs) || hasSymStruct(cargs) {
					r, ok := ex.evalPure(callee, cargs)
					if !ok {
						return nil, false
					}
					env[ins] = r
				} else {
					env[ins] = ex.callFunction(callee, cargs, nil, ins)
				}
			case *ssa.Phi:
				var val Value
				first := true
				for i, pred := range b.Preds {
					eg := edgeGuard[cfgEdge{pred, b}]
					if eg == nil || eg.isFalse() {
						continue
					}
					v := get(ins.Edges[i])
					if first {
						val = v
						first = false
					} else {
						val = ex.mergeVal(eg, v, val, ins.Type())
					}
				}
				env[ins] = val
			case *ssa.If:
				c := get(ins.Cond)
				var ct *Term
				switch c := c.(type) {
				case bool:
					ct = ts.Bool(c)
				case *Term:
					ct = c
				}
				addEdge(edgeGuard, guard, cfgEdge{b, b.Succs[0]}, ts.And(g, ct), ts)
				addEdge(edgeGuard, guard, cfgEdge{b, b.Succs[1]}, ts.And(g, ts.Not(ct)), ts)
			case *ssa.Jump:
				addEdge(edgeGuard, guard, cfgEdge{b, b.Succs[0]}, g, ts)
			case *ssa.Return:
				var v Value
				switch len(ins.Results) {
				case 0:
				case 1:
					v = get(ins.Results[0])
				default:
					t := make(Tuple, len(ins.Results))
					for i, r := range ins.Results {
						t[i] = get(r)
					}
					v = t
				}
				rets = append(rets, ret{g, v})
			default:
				return nil, false
			}
		}
	}
	if len(rets) == 0 {
		return nil, false
	}
	res := fn.Signature.Results()
	out := rets[len(rets)-1].v
	for i := len(rets) - 2; i >= 0; i-- {
		r := rets[i]
		switch res.Len() {
		case 1:
			out = ex.mergeVal(r.g, r.v, out, res.At(0).Type())
		default:
			ot := out.(Tuple)
			nt := make(Tuple, len(ot))
			for k := range ot {
				nt[k] = ex.mergeVal(r.g, r.v.(Tuple)[k], ot[k], res.At(k).Type())
			}
			out = nt
		}
	}
	return out, true
}

func hasSymStruct(args []Value) bool {
	for _, a := range args {
		if s, ok := a.(Struct); ok {
			for _, f := range s {
				if isSym(f) {
					return true
				}
			}
		}
	}
	return false
}

type cfgEdge struct{ from, to *ssa.BasicBlock }

func addEdge(edgeGuard map[cfgEdge]*Term, guard map[*ssa.BasicBlock]*Term, e cfgEdge, g *Term, ts *TermStore) {
	edgeGuard[e] = g
	if old := guard[e.to]; old != nil {
		guard[e.to] = ts.Or(old, g)
	} else {
		guard[e.to] = g
	}
}
