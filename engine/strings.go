package main

// Strings with symbolic bytes.

import (
	"fmt"
	"go/token"
	"go/types"
	"unicode/utf8"
)

func (ex *Exec) forceStr(v Value) Value {
	for {
		l, ok := v.(*LazyStr)
		if !ok {
			return v
		}
		if !l.done {
			l.val = l.force()
			l.done = true
		}
		v = l.val
	}
}

func (ex *Exec) mkStr(b []Value) Value {
	conc := true
	for _, x := range b {
		if _, ok := x.(int64); !ok {
			conc = false
			break
		}
	}
	if conc {
		bs := make([]byte, len(b))
		for i, x := range b {
			bs[i] = byte(x.(int64))
		}
		return string(bs)
	}
	return &SymStr{b: b}
}

func (ex *Exec) concretizeVStr(v *VStr) string {
	i := int(ex.concretize(v.sel))
	if i < 0 || i >= len(v.table) {
		panic(pathEnd{kind: "infeasible", msg: "vstr selector out of table"})
	}
	return v.table[i]
}

func (ex *Exec) strBytes(v Value) []Value {
	switch s := ex.forceStr(v).(type) {
	case string:
		r := make([]Value, len(s))
		for i := 0; i < len(s); i++ {
			r[i] = int64(s[i])
		}
		return r
	case *SymStr:
		return s.b
	case *VStr:
		return ex.vstrBytes(s)
	case *Opaque:
		panic(ex.unsupported("content of opaque string needed (" + s.why + ")"))
	}
	panic(ex.unsupported(fmt.Sprintf("strBytes of %T", v)))
}

// vstrBytes turns a symbolic choice of strings into symbolic bytes, forking only on the length.
func (ex *Exec) vstrBytes(v *VStr) []Value {
	ts := ex.ts
	n := 0
	switch l := ex.strLenV(v).(type) {
	case int64:
		n = int(l)
	case *Term:
		n = int(ex.concretize(l))
	}
	out := make([]Value, n)
	for off := 0; off < n; off++ {
		groups := map[byte][]int{}
		var order []byte
		for j, e := range v.table {
			if len(e) != n {
				continue
			}
			b := e[off]
			if _, seen := groups[b]; !seen {
				order = append(order, b)
			}
			groups[b] = append(groups[b], j)
		}
		if len(order) == 0 {
			panic(pathEnd{kind: "infeasible", msg: "vstr length without entries"})
		}
		def := order[0]
		for _, b := range order {
			if len(groups[b]) > len(groups[def]) {
				def = b
			}
		}
		t := ts.Const(uint64(def), 8)
		for _, b := range order {
			if b == def {
				continue
			}
			t = ts.Ite(ex.selIn(v.sel, groups[b]), ts.Const(uint64(b), 8), t)
		}
		if len(ex.fixed) > 0 && t.vars.intersects(ex.fixedSet) {
			t = ts.Subst(t, ex.fixed, ex.fixedSet, map[*Term]*Term{})
		}
		out[off] = ex.simp(t)
	}
	return out
}

func (ex *Exec) strLen(v Value) int {
	switch s := ex.forceStr(v).(type) {
	case string:
		return len(s)
	case *SymStr:
		return len(s.b)
	case *VStr:
		n := len(s.table[0])
		same := true
		for _, t := range s.table {
			if len(t) != n {
				same = false
			}
		}
		if same {
			return n
		}
		return ex.concreteInt(ex.strLenV(s), types.Typ[types.Int])
	case *Opaque:
		panic(ex.unsupported("length of opaque string needed (" + s.why + ")"))
	}
	panic(ex.unsupported(fmt.Sprintf("strLen of %T", v)))
}

// strLenV returns the length as a Value; for a VStr it is a term over the selector.
func (ex *Exec) strLenV(v Value) Value {
	if s, ok := ex.forceStr(v).(*VStr); ok {
		n := len(s.table[0])
		same := true
		for _, t := range s.table {
			if len(t) != n {
				same = false
			}
		}
		if !same {
			groups := map[int][]int{}
			var order []int
			for j, e := range s.table {
				if _, seen := groups[len(e)]; !seen {
					order = append(order, len(e))
				}
				groups[len(e)] = append(groups[len(e)], j)
			}
			def := order[0]
			for _, l := range order {
				if len(groups[l]) > len(groups[def]) {
					def = l
				}
			}
			r := ex.ts.Const(uint64(def), 64)
			for _, l := range order {
				if l != def {
					r = ex.ts.Ite(ex.selIn(s.sel, groups[l]), ex.ts.Const(uint64(l), 64), r)
				}
			}
			if len(ex.fixed) > 0 && r.vars.intersects(ex.fixedSet) {
				r = ex.ts.Subst(r, ex.fixed, ex.fixedSet, map[*Term]*Term{})
			}
			return ex.simp(r)
		}
	}
	return int64(ex.strLen(v))
}

func (ex *Exec) strIndex(x Value, idx Value, it types.Type) Value {
	s := ex.forceStr(x)
	n := ex.strLen(s)
	i := ex.concreteIndex(idx, it, n)
	switch s := s.(type) {
	case string:
		return int64(s[i])
	case *SymStr:
		return s.b[i]
	}
	return ex.strBytes(s)[i]
}

func (ex *Exec) strSlice(s Value, lo, hi int) Value {
	switch s := s.(type) {
	case string:
		return s[lo:hi]
	case *SymStr:
		return ex.mkStr(s.b[lo:hi:hi])
	}
	b := ex.strBytes(s)
	return ex.mkStr(b[lo:hi:hi])
}

func (ex *Exec) strConcat(x, y Value) Value {
	x, y = ex.forceStr(x), ex.forceStr(y)
	if a, ok := x.(string); ok {
		if b, ok := y.(string); ok {
			// copying costs: one step per 8 bytes, so that the step budget also bounds the
			// amount of text a path can build
			ex.steps += (len(a) + len(b)) / 8
			return a + b
		}
		if a == "" {
			return y
		}
	}
	if b, ok := y.(string); ok && b == "" {
		return x
	}
	if o, ok := x.(*Opaque); ok {
		return o
	}
	if o, ok := y.(*Opaque); ok {
		return o
	}
	// a symbolic choice of strings stays a choice under concatenation with concrete text
	if vx, ok := x.(*VStr); ok {
		if b, ok := y.(string); ok {
			t := make([]string, len(vx.table))
			for i, e := range vx.table {
				t[i] = e + b
			}
			return &VStr{sel: vx.sel, table: t}
		}
	}
	if vy, ok := y.(*VStr); ok {
		if a, ok := x.(string); ok {
			t := make([]string, len(vy.table))
			for i, e := range vy.table {
				t[i] = a + e
			}
			return &VStr{sel: vy.sel, table: t}
		}
	}
	xb, yb := ex.strBytes(x), ex.strBytes(y)
	r := make([]Value, 0, len(xb)+len(yb))
	r = append(r, xb...)
	r = append(r, yb...)
	return ex.mkStr(r)
}

func (ex *Exec) byteEq(a, b Value) Value {
	switch a := a.(type) {
	case int64:
		switch b := b.(type) {
		case int64:
			return a == b
		case *Term:
			return ex.ts.Eq(b, ex.ts.Const(uint64(a), 8))
		}
	case *Term:
		switch b := b.(type) {
		case int64:
			return ex.ts.Eq(a, ex.ts.Const(uint64(b), 8))
		case *Term:
			return ex.ts.Eq(a, b)
		}
	}
	panic("byteEq")
}

func (ex *Exec) strEqual(x, y Value) Value {
	x, y = ex.forceStr(x), ex.forceStr(y)
	if a, ok := x.(string); ok {
		if b, ok := y.(string); ok {
			return a == b
		}
	}
	if vx, ok := x.(*VStr); ok {
		return ex.vstrEqual(vx, y)
	}
	if vy, ok := y.(*VStr); ok {
		return ex.vstrEqual(vy, x)
	}
	if ox, ok := x.(*Opaque); ok {
		if oy, ok := y.(*Opaque); ok && ox == oy {
			return true
		}
		panic(ex.unsupported("comparison of opaque string (" + ox.why + ")"))
	}
	if oy, ok := y.(*Opaque); ok {
		panic(ex.unsupported("comparison of opaque string (" + oy.why + ")"))
	}
	if ex.strLen(x) != ex.strLen(y) {
		return false
	}
	xb, yb := ex.strBytes(x), ex.strBytes(y)
	var r Value = true
	for i := range xb {
		r = ex.andVal(r, ex.byteEq(xb[i], yb[i]))
		if r == false {
			return false
		}
	}
	return r
}

func (ex *Exec) vstrEqual(v *VStr, y Value) Value {
	ts := ex.ts
	switch y := y.(type) {
	case string:
		var idxs []int
		for i, t := range v.table {
			if t == y {
				idxs = append(idxs, i)
			}
		}
		r := ex.selIn(v.sel, idxs)
		if r.isConst() {
			return r.isTrue()
		}
		return r
	case *VStr:
		if y.sel == v.sel && len(y.table) == len(v.table) {
			same := true
			for i := range v.table {
				if v.table[i] != y.table[i] {
					same = false
				}
			}
			if same {
				return true
			}
		}
		if v.sel.bits == y.sel.bits && len(v.table) == len(y.table) {
			sameTable := true
			for i := range v.table {
				if v.table[i] != y.table[i] {
					sameTable = false
					break
				}
			}
			if sameTable {
				// equal strings <=> equal class of the selector, where entries with the same text form one class
				return ex.simp(ts.Eq(ex.vstrClass(v), ex.vstrClass(y)))
			}
		}
		r := ts.ff
		for i, a := range v.table {
			for j, b := range y.table {
				if a == b {
					r = ts.Or(r, ts.And(ts.Eq(v.sel, ts.Const(uint64(i), v.sel.bits)), ts.Eq(y.sel, ts.Const(uint64(j), y.sel.bits))))
				}
			}
		}
		if r.isConst() {
			return r.isTrue()
		}
		return r
	case *SymStr:
		r := ts.ff
		for i, a := range v.table {
			e := ex.strEqual(a, y)
			var et *Term
			switch e := e.(type) {
			case bool:
				et = ts.Bool(e)
			case *Term:
				et = e
			}
			r = ts.Or(r, ts.And(ts.Eq(v.sel, ts.Const(uint64(i), v.sel.bits)), et))
		}
		if r.isConst() {
			return r.isTrue()
		}
		return r
	}
	panic(ex.unsupported(fmt.Sprintf("vstr equality with %T", y)))
}

// vstrClass maps the selector to a representative index of its text (duplicates share one).
func (ex *Exec) vstrClass(v *VStr) *Term {
	ts := ex.ts
	first := map[string]int{}
	groups := map[int][]int{}
	var order []int
	for i, e := range v.table {
		if f, ok := first[e]; ok {
			if len(groups[f]) == 0 {
				order = append(order, f)
				groups[f] = []int{f}
			}
			groups[f] = append(groups[f], i)
		} else {
			first[e] = i
		}
	}
	t := v.sel
	for _, f := range order {
		t = ts.Ite(ex.selIn(v.sel, groups[f]), ts.Const(uint64(f), v.sel.bits), t)
	}
	return t
}

func (ex *Exec) strCompare(op token.Token, x, y Value) Value {
	x, y = ex.forceStr(x), ex.forceStr(y)
	a, aok := x.(string)
	b, bok := y.(string)
	if aok && bok {
		switch op {
		case token.LSS:
			return a < b
		case token.LEQ:
			return a <= b
		case token.GTR:
			return a > b
		case token.GEQ:
			return a >= b
		}
	}
	switch op {
	case token.GTR:
		return ex.strCompare(token.LSS, y, x)
	case token.GEQ:
		return ex.strCompare(token.LEQ, y, x)
	}
	xb, yb := ex.strBytes(x), ex.strBytes(y)
	ts := ex.ts
	// lexicographic: lt(i)
	var rec func(i int) *Term
	rec = func(i int) *Term {
		if i >= len(xb) || i >= len(yb) {
			if op == token.LSS {
				return ts.Bool(len(xb) < len(yb))
			}
			return ts.Bool(len(xb) <= len(yb))
		}
		ai := ex.toTerm(xb[i], types.Typ[types.Uint8])
		bi := ex.toTerm(yb[i], types.Typ[types.Uint8])
		return ts.Ite(ts.Bin(OpULt, ai, bi), ts.tt, ts.Ite(ts.Eq(ai, bi), rec(i+1), ts.ff))
	}
	r := rec(0)
	if r.isConst() {
		return r.isTrue()
	}
	return r
}

// branch turns a bool-or-term condition into a decision.
func (ex *Exec) branch(c Value) bool {
	switch c := c.(type) {
	case bool:
		return c
	case *Term:
		return ex.decide(c)
	}
	panic("branch on non-bool")
}

func (ex *Exec) byteInRange(b Value, lo, hi int64) Value {
	switch b := b.(type) {
	case int64:
		return lo <= b && b <= hi
	case *Term:
		ts := ex.ts
		return ts.And(ts.Bin(OpULe, ts.Const(uint64(lo), 8), b), ts.Bin(OpULe, b, ts.Const(uint64(hi), 8)))
	}
	panic("byteInRange")
}

func (ex *Exec) byteTerm(b Value) *Term {
	switch b := b.(type) {
	case int64:
		return ex.ts.Const(uint64(b), 8)
	case *Term:
		return b
	}
	panic("byteTerm")
}

const runeError = 0xFFFD

// decodeRune implements utf8.DecodeRuneInString(s[pos:]) over concrete-or-symbolic bytes.
// It forks on the byte classes; the returned size is concrete.
func (ex *Exec) decodeRune(sv Value, pos int) (Value, int) {
	sv = ex.forceStr(sv)
	if s, ok := sv.(string); ok {
		r, n := utf8.DecodeRuneInString(s[pos:])
		return int64(r), n
	}
	b := ex.strBytes(sv)
	n := len(b) - pos
	if n < 1 {
		return int64(runeError), 0
	}
	// fast path: enough leading concrete bytes
	if c0, ok := b[pos].(int64); ok {
		if c0 < 0x80 {
			return c0, 1
		}
		var tmp []byte
		for i := pos; i < len(b) && i < pos+4; i++ {
			c, ok := b[i].(int64)
			if !ok {
				tmp = nil
				break
			}
			tmp = append(tmp, byte(c))
		}
		if tmp != nil {
			r, sz := utf8.DecodeRune(tmp)
			return int64(r), sz
		}
	}
	ts := ex.ts
	b0 := b[pos]
	if ex.branch(ex.byteInRange(b0, 0, 0x7f)) {
		return ex.zext32(b0), 1
	}
	bad := func() (Value, int) { return int64(runeError), 1 }
	and := func(v Value, m uint64) *Term {
		return ts.Resize(ts.Bin(OpBAnd, ex.byteTerm(v), ts.Const(m, 8)), 32, false)
	}
	shl := func(t *Term, k uint64) *Term { return ts.Bin(OpShl, t, ts.Const(k, 32)) }
	or := func(a, c *Term) *Term { return ts.Bin(OpBOr, a, c) }
	if ex.branch(ex.byteInRange(b0, 0xC2, 0xDF)) {
		if n < 2 || !ex.branch(ex.byteInRange(b[pos+1], 0x80, 0xBF)) {
			return bad()
		}
		return ex.simp(or(shl(and(b0, 0x1F), 6), and(b[pos+1], 0x3F))), 2
	}
	if ex.branch(ex.byteInRange(b0, 0xE0, 0xEF)) {
		if n < 3 {
			return bad()
		}
		lo, hi := int64(0x80), int64(0xBF)
		if ex.branch(ex.byteEq(b0, int64(0xE0))) {
			lo = 0xA0
		} else if ex.branch(ex.byteEq(b0, int64(0xED))) {
			hi = 0x9F
		}
		if !ex.branch(ex.byteInRange(b[pos+1], lo, hi)) {
			return bad()
		}
		if !ex.branch(ex.byteInRange(b[pos+2], 0x80, 0xBF)) {
			return bad()
		}
		return ex.simp(or(or(shl(and(b0, 0x0F), 12), shl(and(b[pos+1], 0x3F), 6)), and(b[pos+2], 0x3F))), 3
	}
	if ex.branch(ex.byteInRange(b0, 0xF0, 0xF4)) {
		if n < 4 {
			return bad()
		}
		lo, hi := int64(0x80), int64(0xBF)
		if ex.branch(ex.byteEq(b0, int64(0xF0))) {
			lo = 0x90
		} else if ex.branch(ex.byteEq(b0, int64(0xF4))) {
			hi = 0x8F
		}
		if !ex.branch(ex.byteInRange(b[pos+1], lo, hi)) {
			return bad()
		}
		if !ex.branch(ex.byteInRange(b[pos+2], 0x80, 0xBF)) {
			return bad()
		}
		if !ex.branch(ex.byteInRange(b[pos+3], 0x80, 0xBF)) {
			return bad()
		}
		return ex.simp(or(or(or(shl(and(b0, 0x07), 18), shl(and(b[pos+1], 0x3F), 12)), shl(and(b[pos+2], 0x3F), 6)), and(b[pos+3], 0x3F))), 4
	}
	return bad()
}

func (ex *Exec) simp(t *Term) Value {
	if t.isConst() {
		if t.bits == 0 {
			return t.val != 0
		}
		return sext(t.val, t.bits)
	}
	return t
}

func (ex *Exec) zext32(b Value) Value {
	switch b := b.(type) {
	case int64:
		return b
	case *Term:
		return ex.ts.Resize(b, 32, false)
	}
	panic("zext32")
}

// encodeRune implements utf8.AppendRune for a concrete or symbolic rune.
func (ex *Exec) encodeRune(r Value) []Value {
	switch r := r.(type) {
	case int64:
		var out []Value
		for _, c := range []byte(string(rune(r))) {
			out = append(out, int64(c))
		}
		return out
	case *Term:
		ts := ex.ts
		if r.bits != 32 {
			r = ts.Resize(r, 32, true)
		}
		k := func(v uint64) *Term { return ts.Const(v, 32) }
		lo8 := func(t *Term) Value { return ex.simp(ts.Resize(t, 8, false)) }
		shr := func(t *Term, n uint64) *Term { return ts.Bin(OpLShr, t, k(n)) }
		andk := func(t *Term, m uint64) *Term { return ts.Bin(OpBAnd, t, k(m)) }
		ork := func(t *Term, m uint64) *Term { return ts.Bin(OpBOr, t, k(m)) }
		if ex.decide(ts.Bin(OpULt, r, k(0x80))) {
			return []Value{lo8(r)}
		}
		if ex.decide(ts.Bin(OpULt, r, k(0x800))) {
			return []Value{lo8(ork(shr(r, 6), 0xC0)), lo8(ork(andk(r, 0x3F), 0x80))}
		}
		invalid := ts.Or(ts.Bin(OpULt, k(0x10FFFF), r), ts.And(ts.Bin(OpULe, k(0xD800), r), ts.Bin(OpULe, r, k(0xDFFF))))
		if ex.decide(invalid) {
			return []Value{int64(0xEF), int64(0xBF), int64(0xBD)}
		}
		if ex.decide(ts.Bin(OpULt, r, k(0x10000))) {
			return []Value{lo8(ork(shr(r, 12), 0xE0)), lo8(ork(andk(shr(r, 6), 0x3F), 0x80)), lo8(ork(andk(r, 0x3F), 0x80))}
		}
		return []Value{lo8(ork(shr(r, 18), 0xF0)), lo8(ork(andk(shr(r, 12), 0x3F), 0x80)), lo8(ork(andk(shr(r, 6), 0x3F), 0x80)), lo8(ork(andk(r, 0x3F), 0x80))}
	}
	panic(ex.unsupported(fmt.Sprintf("encodeRune of %T", r)))
}

func (ex *Exec) encodeRuneStr(r *Term) Value {
	return ex.mkStr(ex.encodeRune(r))
}
