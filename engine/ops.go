package main

import (
	"fmt"
	"go/token"
	"go/types"
	"math"
)

func (ex *Exec) binop(op token.Token, t types.Type, x, y Value) Value {
	// strings
	if isString(t) {
		switch op {
		case token.ADD:
			return ex.strConcat(x, y)
		case token.EQL:
			return ex.strEqual(x, y)
		case token.NEQ:
			return ex.notVal(ex.strEqual(x, y))
		case token.LSS, token.LEQ, token.GTR, token.GEQ:
			return ex.strCompare(op, x, y)
		}
	}
	switch op {
	case token.EQL:
		return ex.equal(x, y)
	case token.NEQ:
		return ex.notVal(ex.equal(x, y))
	}
	if bits, signed, ok := intKind(t); ok {
		xt, xs := x.(*Term)
		yt, ys := y.(*Term)
		if !xs && !ys {
			return ex.intBinop(op, bits, signed, x.(int64), y.(int64))
		}
		if !xs {
			xt = ex.ts.Const(uint64(x.(int64)), bits)
		}
		if !ys {
			// shift counts may have a different type: normalise width
			yt = ex.ts.Const(uint64(y.(int64)), bits)
		}
		if yt.bits != bits {
			yt = ex.ts.Resize(yt, bits, false)
		}
		ts := ex.ts
		switch op {
		case token.ADD:
			return ts.Bin(OpAdd, xt, yt)
		case token.SUB:
			return ts.Bin(OpSub, xt, yt)
		case token.MUL:
			return ts.Bin(OpMul, xt, yt)
		case token.QUO, token.REM:
			z := ts.Eq(yt, ts.Const(0, bits))
			if !z.isFalse() {
				if z.isTrue() || ex.decide(z) {
					panic(ex.rtPanic("integer divide by zero"))
				}
			}
			var o Op
			switch {
			case op == token.QUO && signed:
				o = OpSDiv
			case op == token.QUO:
				o = OpUDiv
			case signed:
				o = OpSRem
			default:
				o = OpURem
			}
			return ts.Bin(o, xt, yt)
		case token.AND:
			return ts.Bin(OpBAnd, xt, yt)
		case token.OR:
			return ts.Bin(OpBOr, xt, yt)
		case token.XOR:
			return ts.Bin(OpBXor, xt, yt)
		case token.AND_NOT:
			return ts.Bin(OpBAnd, xt, ts.BNot(yt))
		case token.SHL:
			return ts.Bin(OpShl, xt, yt)
		case token.SHR:
			if signed {
				return ts.Bin(OpAShr, xt, yt)
			}
			return ts.Bin(OpLShr, xt, yt)
		case token.LSS:
			if signed {
				return ts.Bin(OpSLt, xt, yt)
			}
			return ts.Bin(OpULt, xt, yt)
		case token.LEQ:
			if signed {
				return ts.Bin(OpSLe, xt, yt)
			}
			return ts.Bin(OpULe, xt, yt)
		case token.GTR:
			if signed {
				return ts.Bin(OpSLt, yt, xt)
			}
			return ts.Bin(OpULt, yt, xt)
		case token.GEQ:
			if signed {
				return ts.Bin(OpSLe, yt, xt)
			}
			return ts.Bin(OpULe, yt, xt)
		}
	}
	if isBool(t) {
		// && and || never reach here (control flow); & | on bools do not exist
	}
	if isFloat(t) {
		a, b := x.(float64), y.(float64)
		switch op {
		case token.ADD:
			return a + b
		case token.SUB:
			return a - b
		case token.MUL:
			return a * b
		case token.QUO:
			return a / b
		case token.LSS:
			return a < b
		case token.LEQ:
			return a <= b
		case token.GTR:
			return a > b
		case token.GEQ:
			return a >= b
		}
	}
	panic(ex.unsupported(fmt.Sprintf("binop %s on %T,%T (%s)", op, x, y, t)))
}

func (ex *Exec) intBinop(op token.Token, bits int, signed bool, x, y int64) Value {
	ux, uy := uint64(x), uint64(y)
	switch op {
	case token.ADD:
		return normInt(x+y, bits, signed)
	case token.SUB:
		return normInt(x-y, bits, signed)
	case token.MUL:
		return normInt(x*y, bits, signed)
	case token.QUO:
		if y == 0 {
			panic(ex.rtPanic("integer divide by zero"))
		}
		if signed {
			if y == -1 {
				return normInt(-x, bits, signed)
			}
			return normInt(x/y, bits, signed)
		}
		return normInt(int64(ux/uy), bits, signed)
	case token.REM:
		if y == 0 {
			panic(ex.rtPanic("integer divide by zero"))
		}
		if signed {
			if y == -1 {
				return int64(0)
			}
			return normInt(x%y, bits, signed)
		}
		return normInt(int64(ux%uy), bits, signed)
	case token.AND:
		return x & y
	case token.OR:
		return x | y
	case token.XOR:
		return normInt(x^y, bits, signed)
	case token.AND_NOT:
		return x &^ y
	case token.SHL:
		if uy >= 64 {
			return int64(0)
		}
		return normInt(int64(ux<<uy), bits, signed)
	case token.SHR:
		if signed {
			if uy >= 64 {
				uy = 63
			}
			return x >> uy
		}
		if uy >= 64 {
			return int64(0)
		}
		return int64(ux >> uy)
	case token.LSS:
		if signed {
			return x < y
		}
		return ux < uy
	case token.LEQ:
		if signed {
			return x <= y
		}
		return ux <= uy
	case token.GTR:
		if signed {
			return x > y
		}
		return ux > uy
	case token.GEQ:
		if signed {
			return x >= y
		}
		return ux >= uy
	}
	panic(ex.unsupported("int binop " + op.String()))
}

func (ex *Exec) notVal(v Value) Value {
	switch v := v.(type) {
	case bool:
		return !v
	case *Term:
		return ex.ts.Not(v)
	}
	panic(ex.unsupported(fmt.Sprintf("not of %T", v)))
}

func (ex *Exec) andVal(a, b Value) Value {
	switch a := a.(type) {
	case bool:
		if !a {
			return false
		}
		return b
	case *Term:
		switch b := b.(type) {
		case bool:
			if !b {
				return false
			}
			return a
		case *Term:
			return ex.ts.And(a, b)
		}
	}
	panic(ex.unsupported("andVal"))
}

// equal implements == for every comparable kind; the result is bool or *Term.
func (ex *Exec) equal(x, y Value) Value {
	switch a := x.(type) {
	case nil:
		return isNilVal(y)
	case bool:
		switch b := y.(type) {
		case bool:
			return a == b
		case *Term:
			return ex.ts.Eq(ex.ts.Bool(a), b)
		}
	case int64:
		switch b := y.(type) {
		case int64:
			return a == b
		case *Term:
			return ex.ts.Eq(ex.ts.Const(uint64(a), b.bits), b)
		}
	case float64:
		if b, ok := y.(float64); ok {
			return a == b
		}
	case *Term:
		switch b := y.(type) {
		case *Term:
			return ex.ts.Eq(a, b)
		case int64:
			return ex.ts.Eq(a, ex.ts.Const(uint64(b), a.bits))
		case bool:
			return ex.ts.Eq(a, ex.ts.Bool(b))
		}
	case string, *SymStr, *LazyStr, *VStr, *Opaque:
		return ex.strEqual(x, y)
	case Ptr:
		switch b := y.(type) {
		case Ptr:
			return a == b
		case nil:
			return a == nil
		}
	case *Map:
		if y == nil {
			return a == nil
		}
		if b, ok := y.(*Map); ok {
			return a == b
		}
	case Slice:
		if y == nil {
			return a == nil
		}
		if b, ok := y.(Slice); ok && b == nil {
			return a == nil
		}
	case *Chan:
		if b, ok := y.(*Chan); ok {
			return a == b
		}
	case Iface:
		b, ok := y.(Iface)
		if !ok {
			if y == nil {
				return a.T == nil
			}
			break
		}
		if a.T == nil || b.T == nil {
			return a.T == nil && b.T == nil
		}
		if !types.Identical(a.T, b.T) {
			return false
		}
		if !types.Comparable(a.T) {
			panic(ex.rtPanic("comparing uncomparable type " + a.T.String()))
		}
		return ex.equal(a.V, b.V)
	case Struct:
		b := y.(Struct)
		var r Value = true
		for i := range a {
			r = ex.andVal(r, ex.equal(a[i], b[i]))
			if r == false {
				return false
			}
		}
		return r
	case Array:
		b := y.(Array)
		var r Value = true
		for i := range a {
			r = ex.andVal(r, ex.equal(a[i], b[i]))
			if r == false {
				return false
			}
		}
		return r
	case *Closure:
		if y == nil {
			return a == nil
		}
	}
	if fnIsNil(x) && fnIsNil(y) {
		return true
	}
	if y == nil {
		return isNilVal(x)
	}
	panic(ex.unsupported(fmt.Sprintf("equal on %T,%T", x, y)))
}

func fnIsNil(v Value) bool {
	switch f := v.(type) {
	case nil:
		return true
	case *Closure:
		return f == nil
	}
	if f, ok := v.(interface{ String() string }); ok {
		_ = f
	}
	return false
}

func isNilVal(v Value) bool {
	switch v := v.(type) {
	case nil:
		return true
	case Ptr:
		return v == nil
	case *Map:
		return v == nil
	case Slice:
		return v == nil
	case Iface:
		return v.T == nil
	case *Closure:
		return v == nil
	case *Chan:
		return v == nil
	}
	return false
}

func (ex *Exec) convert(from, to types.Type, x Value) Value {
	fu, tu := from.Underlying(), to.Underlying()
	if fb, fs, ok := intKind(fu); ok {
		if tb, tsg, ok2 := intKind(tu); ok2 {
			switch v := x.(type) {
			case int64:
				return normInt(v, tb, tsg)
			case *Term:
				_ = fb
				return ex.ts.Resize(v, tb, fs)
			}
		}
		if isFloat(tu) {
			switch v := x.(type) {
			case int64:
				if fs {
					return float64(v)
				}
				return float64(uint64(v))
			}
			panic(ex.unsupported("symbolic int to float"))
		}
		if isString(tu) {
			// string(rune)
			switch v := x.(type) {
			case int64:
				return string(rune(v))
			case *Term:
				return ex.encodeRuneStr(v)
			}
		}
	}
	if isFloat(fu) {
		f := x.(float64)
		if tb, tsg, ok := intKind(tu); ok {
			if tsg {
				return normInt(int64(f), tb, tsg)
			}
			if f >= 9.223372036854775808e18 {
				return normInt(int64(uint64(f)), tb, tsg)
			}
			return normInt(int64(f), tb, tsg)
		}
		if isFloat(tu) {
			if tu.(*types.Basic).Kind() == types.Float32 {
				return float64(float32(f))
			}
			return f
		}
	}
	if isString(fu) {
		if sl, ok := tu.(*types.Slice); ok {
			eb, _, _ := intKind(sl.Elem())
			s := ex.forceStr(x)
			if eb == 8 {
				bs := ex.strBytes(s)
				r := make(Slice, len(bs))
				copy(r, bs)
				return r
			}
			// []rune
			var r Slice
			n := ex.strLen(s)
			for i := 0; i < n; {
				c, size := ex.decodeRune(s, i)
				r = append(r, c)
				i += size
			}
			if r == nil {
				r = Slice{}
			}
			return r
		}
		if isString(tu) {
			return x
		}
	}
	if sl, ok := fu.(*types.Slice); ok && isString(tu) {
		eb, _, _ := intKind(sl.Elem())
		s, _ := x.(Slice)
		if eb == 8 {
			bs := make([]Value, len(s))
			copy(bs, s)
			return ex.mkStr(bs)
		}
		var out []Value
		for _, r := range s {
			switch r := r.(type) {
			case int64:
				for _, b := range []byte(string(rune(r))) {
					out = append(out, int64(b))
				}
			case *Term:
				out = append(out, ex.strBytes(ex.encodeRuneStr(r))...)
			}
		}
		return ex.mkStr(out)
	}
	if _, ok := tu.(*types.Pointer); ok {
		return x
	}
	if b, ok := tu.(*types.Basic); ok && b.Kind() == types.UnsafePointer {
		return x
	}
	if b, ok := fu.(*types.Basic); ok && b.Kind() == types.UnsafePointer {
		return x
	}
	_ = math.MaxInt
	panic(ex.unsupported(fmt.Sprintf("convert %s -> %s", from, to)))
}
