package main

// Path exploration by decision-prefix replay.

import (
	"fmt"
	"math/bits"
	"os"
	"sort"
	"strings"
	"sync"
	"time"

	"golang.org/x/tools/go/ssa"
)

type Decision struct {
	Kind byte   // 'b' binary, 'v' value, 'n' n-ary
	Val  uint64 // taken branch / value / index
	Excl []uint64
	Open bool // 'v': value not chosen yet (alternative item): pick one not in Excl
}

// WorkItem is an unexplored path: a decision prefix plus (optionally) a model of its path condition.
type WorkItem struct {
	Prefix []Decision
	Model  map[string]uint64
}

type inputRec struct {
	Kind  string  // "byte","bytes","bool","int","intrange","tokens"
	Name  string  // variable base name
	Terms []*Term // the symbolic variables
	Lo    int64
	Hi    int64
	Table []string // for "tok": the vocabulary
}

type obsRec struct {
	Label string
	Val   Value
}

type Exec struct {
	eng        *Engine
	ts         *TermStore
	sol        *Solver
	sol2, sol3 *Solver
	id         int

	// per path
	pc            []*Term
	prefix        []Decision
	pos           int
	trace         []Decision
	newWork       []WorkItem
	model         map[string]uint64 // satisfies pc, or nil
	pcset         map[int]bool
	fixed         map[int]uint64 // input variables determined by the path condition
	fixedSet      varset
	prefixModel   map[string]uint64
	steps         int
	budget        int
	maxDepth      int
	syncMaps      map[Ptr]*Map
	depth         int
	stack         []*frame
	deferOwner    []*frame
	globals       map[*ssa.Global]*Value
	initDone      map[*ssa.Package]bool
	inputs        []inputRec
	nvar          int
	covers        map[string]bool
	obs           []obsRec
	tainted       bool // an "unknown" feasibility answer was taken as feasible
	permuteMaps   bool
	onceDone      map[Ptr]bool
	violations    []*Violation
	inHarness     bool
	unknowns      int
	concretized   int
	hrun          *HarnessRun
	par           *parState
	lastInstr     string
	funcs         map[*ssa.Function]bool
	tokSrc        *tokSrc
	noSummary     bool
	summaryHits   int
	assertQueries int
	shared        *sharedState
	onceDepth     int
	lastRaces     []string
	pools         map[Ptr][]Value
}

type Violation struct {
	Kind    string // "assert", "panic", "hang"
	Msg     string
	Inputs  []ReplayInput
	Path    []Decision
	Where   string
	Tainted bool
	Other   []ReplayInput // "history": the inputs of the execution compared with
	Label   string        // "history": the observation that differs
}

type ReplayInput struct {
	Kind string  `json:"kind"`
	Val  []int64 `json:"val"`
	Text string  `json:"text,omitempty"` // readable rendering (token lexeme)
}

type PathResult struct {
	Outcome    string // ok, assume, panic, budget, unsupported, infeasible
	Msg        string
	Steps      int
	Decisions  int
	Covers     map[string]bool
	Violations []*Violation
	NewWork    []WorkItem
	Tainted    bool
	Unknowns   int
	Concret    int
	Sample     *PathSample
	Inputs     []ReplayInput // concrete witness of the path (when sampled)
	Obs        []string
}

type PathSample struct {
	PathCond string        `json:"path_condition"`
	Inputs   []ReplayInput `json:"witness_inputs"`
	Outcome  string        `json:"outcome"`
}

// feasible decides pc ∧ c using independence slicing and the query cache.
func (ex *Exec) feasible(c *Term) Verdict {
	v, _ := ex.feasibleModel(c)
	return v
}

// feasibleSMT decides pc ∧ c with the SMT solver (used for assertions: the verdict is the solver's).
func (ex *Exec) feasibleSMT(c *Term) Verdict {
	if c.isTrue() {
		return Sat
	}
	if c.isFalse() {
		return Unsat
	}
	if len(ex.fixed) > 0 && c.vars.intersects(ex.fixedSet) {
		c = ex.ts.Subst(c, ex.fixed, ex.fixedSet, map[*Term]*Term{})
		if c.isConst() {
			if c.isTrue() {
				return Sat
			}
			return Unsat
		}
	}
	rel := ex.sliceFor(c)
	rel = append(rel, c)
	ex.assertQueries++
	v := ex.sol.Check(rel)
	if ex.eng.crossCheck {
		ex.crossCheck(rel, v)
	}
	return v
}

// crossCheck repeats an assertion query with other solvers (thorough tier): every
// query with z3 5.x, every 25th with cvc5. A disagreement makes the run unusable.
func (ex *Exec) crossCheck(cs []*Term, v Verdict) {
	if v == Unknown {
		return
	}
	if ex.sol2 == nil {
		ex.sol2 = NewSolver("z3-new", ex.ts, ex.eng.solverTimeoutMs, ex.eng.seed)
	}
	ex.eng.smu.Lock()
	ex.eng.crossQueries++
	n := ex.eng.crossQueries
	ex.eng.smu.Unlock()
	if v2 := ex.sol2.Check(cs); v2 != Unknown && v2 != v {
		ex.eng.noteDisagreement(fmt.Sprintf("z3 %s vs z3-new %s", v, v2))
	}
	if n%25 == 0 {
		if ex.sol3 == nil {
			ex.sol3 = NewSolver("cvc5", ex.ts, ex.eng.solverTimeoutMs, ex.eng.seed)
		}
		ex.eng.smu.Lock()
		ex.eng.crossCVC5++
		ex.eng.smu.Unlock()
		if v3 := ex.sol3.Check(cs); v3 != Unknown && v3 != v {
			ex.eng.noteDisagreement(fmt.Sprintf("z3 %s vs cvc5 %s", v, v3))
		}
	}
}

func (e *Engine) noteDisagreement(msg string) {
	e.smu.Lock()
	e.disagreements = append(e.disagreements, msg)
	e.smu.Unlock()
}

// feasibleModel also returns a model of the relevant slice when satisfiable.
func (ex *Exec) feasibleModel(c *Term) (Verdict, map[string]uint64) {
	if c.isTrue() {
		return Sat, nil
	}
	if c.isFalse() {
		return Unsat, nil
	}
	if ex.pcset[c.id] {
		return Sat, nil
	}
	if c.op == OpNot && ex.pcset[c.args[0].id] {
		return Unsat, nil
	}
	if c.op != OpNot {
		if n, ok := ex.ts.tab[termKey{op: OpNot, a: c.id, b: -1, c: -1}]; ok && ex.pcset[n.id] {
			return Unsat, nil
		}
	}
	rel := ex.sliceFor(c)
	rel = append(rel, c)
	return ex.check(rel)
}

// check decides a conjunction. Constraint sets over one single byte-sized
// variable are decided by truth tables (a finite-domain decision procedure used
// for branch feasibility only; assertions always go to the SMT solver).
func (ex *Exec) check(cs []*Term) (Verdict, map[string]uint64) {
	if !ex.eng.noFastPath {
		if v, m, ok := ex.fastCheck(cs); ok {
			return v, m
		}
	}
	return ex.sol.CheckModel(cs)
}

func (ex *Exec) fastCheck(cs []*Term) (Verdict, map[string]uint64, bool) {
	var vs varset
	for _, c := range cs {
		if c.nvars > 1 {
			return 0, nil, false
		}
		vs = vs.union(c.vars)
	}
	l := vs.list()
	if len(l) != 1 {
		return 0, nil, false
	}
	x := ex.ts.vars[l[0]]
	if x.bits > 8 || x.bits < 0 {
		return 0, nil, false
	}
	dom := [4]uint64{^uint64(0), ^uint64(0), ^uint64(0), ^uint64(0)}
	if x.bits == 0 {
		dom = [4]uint64{3, 0, 0, 0}
	}
	for _, c := range cs {
		b, ok := ex.ts.TruthBits(c)
		if !ok {
			return 0, nil, false
		}
		for i := range dom {
			dom[i] &= b[i]
		}
	}
	ex.ts.Fast.Decided++
	for i, w := range dom {
		if w != 0 {
			v := uint64(i*64 + bits.TrailingZeros64(w))
			return Sat, map[string]uint64{x.name: v}, true
		}
	}
	return Unsat, nil, true
}

// evalModel evaluates a condition under the current model of pc.
func (ex *Exec) evalModel(c *Term) (bool, bool) {
	if ex.model == nil {
		return false, false
	}
	v, ok := ex.ts.Eval(c, ex.model)
	return v != 0, ok
}

// ensureModel (re)acquires a model of the whole path condition.
func (ex *Exec) ensureModel() {
	if ex.model != nil {
		return
	}
	if len(ex.pc) == 0 {
		ex.model = map[string]uint64{}
		return
	}
	var vs varset
	for _, c := range ex.pc {
		vs = vs.union(c.vars)
	}
	var vars []*Term
	for _, i := range vs.list() {
		vars = append(vars, ex.ts.vars[i])
	}
	v, m := ex.sol.Model(ex.pc, vars)
	if v == Sat {
		if m == nil {
			m = map[string]uint64{}
		}
		ex.model = m
	}
}

func mergeModel(base, over map[string]uint64) map[string]uint64 {
	r := make(map[string]uint64, len(base)+len(over))
	for k, v := range base {
		r[k] = v
	}
	for k, v := range over {
		r[k] = v
	}
	return r
}

func (ex *Exec) sliceFor(c *Term) []*Term {
	vars := c.vars
	used := make([]bool, len(ex.pc))
	var rel []*Term
	for changed := true; changed; {
		changed = false
		for i, p := range ex.pc {
			if used[i] {
				continue
			}
			if p.vars.intersects(vars) {
				used[i] = true
				changed = true
				vars = vars.union(p.vars)
				rel = append(rel, p)
			}
		}
	}
	return rel
}

func (ex *Exec) addPC(c *Term) {
	if c.isTrue() || ex.pcset[c.id] {
		return
	}
	ex.pc = append(ex.pc, c)
	ex.pcset[c.id] = true
	if c.op == OpEq {
		v, k := c.args[0], c.args[1]
		if v.op == OpConst {
			v, k = k, v
		}
		if v.op == OpVar && k.op == OpConst {
			i := ex.ts.varIdx[v.name]
			ex.fixed[i] = k.val
			ex.fixedSet = ex.fixedSet.union(v.vars)
		}
	} else if c.op == OpVar && c.bits == 0 {
		ex.fixed[ex.ts.varIdx[c.name]] = 1
		ex.fixedSet = ex.fixedSet.union(c.vars)
	} else if c.op == OpNot && c.args[0].op == OpVar {
		ex.fixed[ex.ts.varIdx[c.args[0].name]] = 0
		ex.fixedSet = ex.fixedSet.union(c.args[0].vars)
	}
	if ex.model != nil {
		if v, ok := ex.ts.Eval(c, ex.model); !ok || v == 0 {
			ex.model = nil
		}
	}
}

// decide forks on a symbolic condition.
func (ex *Exec) decide(c *Term) bool {
	if c.bits != 0 {
		panic("decide on non-bool term")
	}
	if c.isConst() {
		return c.isTrue()
	}
	if len(ex.fixed) > 0 && c.vars.intersects(ex.fixedSet) {
		c = ex.ts.Subst(c, ex.fixed, ex.fixedSet, map[*Term]*Term{})
		if c.isConst() {
			return c.isTrue()
		}
	}
	if ex.par != nil {
		ex.par.noteDecision()
	}
	if ex.pos < len(ex.prefix) {
		d := ex.prefix[ex.pos]
		ex.pos++
		if d.Kind != 'b' {
			panic(fmt.Sprintf("replay mismatch: expected kind %c at %d, got binary (in %s)", d.Kind, ex.pos-1, describeStack(ex)))
		}
		ex.trace = append(ex.trace, d)
		if d.Val == 1 {
			ex.addPC(c)
		} else {
			ex.addPC(ex.ts.Not(c))
		}
		return d.Val == 1
	}
	ex.pos++
	if ex.pos-1 == len(ex.prefix) && ex.prefixModel != nil && ex.model == nil {
		// first fresh decision after a replayed prefix: the work item carried a model
		ex.model = ex.prefixModel
		ex.prefixModel = nil
		for _, p := range ex.pc {
			if v, ok := ex.ts.Eval(p, ex.model); !ok || v == 0 {
				ex.model = nil
				break
			}
		}
	}
	nc := ex.ts.Not(c)
	take := func(side bool) bool {
		d := Decision{Kind: 'b'}
		if side {
			d.Val = 1
			ex.addPC(c)
		} else {
			ex.addPC(nc)
		}
		ex.trace = append(ex.trace, d)
		return side
	}
	pushAlt := func(side bool, m map[string]uint64) {
		alt := make([]Decision, len(ex.trace)+1)
		copy(alt, ex.trace)
		d := Decision{Kind: 'b'}
		if side {
			d.Val = 1
		}
		alt[len(ex.trace)] = d
		var wm map[string]uint64
		if ex.model != nil {
			wm = mergeModel(ex.model, m)
		}
		ex.newWork = append(ex.newWork, WorkItem{Prefix: alt, Model: wm})
	}
	ex.ensureModel()
	if mv, ok := ex.evalModel(c); ok {
		// the model already witnesses one side; only the other needs the solver
		var other *Term
		if mv {
			other = nc
		} else {
			other = c
		}
		v, m := ex.feasibleModel(other)
		if v == Unknown {
			ex.unknowns++
			ex.tainted = true
		}
		if v != Unsat {
			pushAlt(!mv, m)
		}
		return take(mv)
	}
	t, tm := ex.feasibleModel(c)
	var f Verdict
	var fm map[string]uint64
	if t == Unsat {
		f = Sat // pc is satisfiable, so the other side must be
	} else {
		f, fm = ex.feasibleModel(nc)
	}
	if t == Unknown || f == Unknown {
		ex.unknowns++
		ex.tainted = true
	}
	switch {
	case t != Unsat && f != Unsat:
		pushAlt(false, fm)
		if ex.model != nil && tm != nil {
			ex.model = mergeModel(ex.model, tm)
		}
		return take(true)
	case t != Unsat:
		if ex.model != nil && tm != nil {
			ex.model = mergeModel(ex.model, tm)
		}
		return take(true)
	default:
		return take(false)
	}
}

// concretize forks over every feasible value of a bit-vector term.
func (ex *Exec) concretize(t *Term) uint64 {
	if t.isConst() {
		return t.val
	}
	if len(ex.fixed) > 0 && t.vars.intersects(ex.fixedSet) {
		t = ex.ts.Subst(t, ex.fixed, ex.fixedSet, map[*Term]*Term{})
		if t.isConst() {
			return t.val
		}
	}
	ex.concretized++
	ts := ex.ts
	var excl []uint64
	if ex.pos < len(ex.prefix) {
		d := ex.prefix[ex.pos]
		if d.Kind != 'v' {
			panic(fmt.Sprintf("replay mismatch: expected kind %c at %d, got value (in %s)", d.Kind, ex.pos, describeStack(ex)))
		}
		if !d.Open {
			ex.pos++
			ex.trace = append(ex.trace, d)
			ex.addPC(ts.Eq(t, ts.Const(d.Val, t.bits)))
			return d.Val
		}
		excl = d.Excl
		if ex.prefixModel != nil && ex.model == nil {
			ex.model = ex.prefixModel
			ex.prefixModel = nil
			for _, p := range ex.pc {
				if v, ok := ex.ts.Eval(p, ex.model); !ok || v == 0 {
					ex.model = nil
					break
				}
			}
		}
	}
	ex.pos++
	var exclC []*Term
	for _, e := range excl {
		exclC = append(exclC, ts.Not(ts.Eq(t, ts.Const(e, t.bits))))
	}
	// candidate value from the model of the path condition, if it respects the exclusions
	var val uint64
	have := false
	ex.ensureModel()
	if ex.model != nil {
		if v, ok := ts.Eval(t, ex.model); ok {
			have = true
			for _, e := range excl {
				if e == v {
					have = false
				}
			}
			val = v
		}
	}
	if !have {
		cs := append(ex.sliceFor(t), exclC...)
		aux := ts.Var(fmt.Sprintf("aux%d", t.bits), t.bits)
		cs2 := append(append([]*Term{}, cs...), ts.Eq(aux, t))
		v, m := ex.check(cs2)
		switch v {
		case Unsat:
			panic(pathEnd{kind: "infeasible", msg: "no further value"})
		case Unknown:
			ex.unknowns++
			panic(pathEnd{kind: "solver", msg: "unknown while concretising"})
		}
		val = m[aux.name]
		if ex.model != nil {
			ex.model = mergeModel(ex.model, m)
		}
	}
	// is there another value? (push alternative only if so)
	excl2 := append(append([]uint64{}, excl...), val)
	other := append(ex.sliceFor(t), exclC...)
	other = append(other, ts.Not(ts.Eq(t, ts.Const(val, t.bits))))
	if v, m := ex.check(other); v != Unsat {
		if v == Unknown {
			ex.unknowns++
			ex.tainted = true
		}
		alt := make([]Decision, len(ex.trace)+1)
		copy(alt, ex.trace)
		alt[len(ex.trace)] = Decision{Kind: 'v', Open: true, Excl: excl2}
		var wm map[string]uint64
		if ex.model != nil && m != nil {
			wm = mergeModel(ex.model, m)
		}
		ex.newWork = append(ex.newWork, WorkItem{Prefix: alt, Model: wm})
	}
	ex.trace = append(ex.trace, Decision{Kind: 'v', Val: val})
	ex.addPC(ts.Eq(t, ts.Const(val, t.bits)))
	return val
}

// chooseN forks n ways unconditionally (environment choices: map order, schedules).
func (ex *Exec) chooseN(n int, what string) int {
	if n <= 1 {
		return 0
	}
	if debugInstr {
		fmt.Fprintf(os.Stderr, "chooseN %d %s at %s\n", n, what, describeStack(ex))
	}
	if ex.pos < len(ex.prefix) {
		d := ex.prefix[ex.pos]
		ex.pos++
		if d.Kind != 'n' {
			panic(fmt.Sprintf("replay mismatch: expected kind %c, got n-ary %s", d.Kind, what))
		}
		ex.trace = append(ex.trace, d)
		return int(d.Val)
	}
	ex.pos++
	for i := n - 1; i >= 1; i-- {
		alt := make([]Decision, len(ex.trace)+1)
		copy(alt, ex.trace)
		alt[len(ex.trace)] = Decision{Kind: 'n', Val: uint64(i)}
		ex.newWork = append(ex.newWork, WorkItem{Prefix: alt, Model: ex.model})
	}
	ex.trace = append(ex.trace, Decision{Kind: 'n', Val: 0})
	return 0
}

// freshVar declares a new input variable.
func (ex *Exec) freshVar(prefix string, bits int) *Term {
	// the sort is part of the name: the n-th input of one path may be a Bool and of another a bit-vector
	name := fmt.Sprintf("%s%d_%d", prefix, ex.nvar, bits)
	ex.nvar++
	return ex.ts.Var(name, bits)
}

// witness asks the solver for concrete inputs satisfying pc (plus extra).
func (ex *Exec) witness(extra ...*Term) ([]ReplayInput, map[string]uint64, Verdict) {
	cs := append(append([]*Term{}, ex.pc...), extra...)
	var vars []*Term
	for _, in := range ex.inputs {
		vars = append(vars, in.Terms...)
	}
	var m map[string]uint64
	v := Sat
	if len(vars) > 0 || len(cs) > 0 {
		if len(vars) == 0 {
			v = ex.sol.Check(cs)
		} else {
			v, m = ex.sol.Model(cs, vars)
		}
	}
	if v != Sat {
		return nil, nil, v
	}
	return ex.inputsFromModel(m), m, Sat
}

func (ex *Exec) inputsFromModel(m map[string]uint64) []ReplayInput {
	out := []ReplayInput{}
	for _, in := range ex.inputs {
		ri := ReplayInput{Kind: in.Kind}
		for _, t := range in.Terms {
			u := m[t.name]
			switch in.Kind {
			case "int", "intrange":
				ri.Val = append(ri.Val, sext(u, t.bits))
			default:
				ri.Val = append(ri.Val, int64(u))
			}
		}
		if ri.Val == nil {
			ri.Val = []int64{}
		}
		if in.Kind == "tok" && len(ri.Val) == 1 && int(ri.Val[0]) < len(in.Table) && ri.Val[0] >= 0 {
			ri.Text = in.Table[ri.Val[0]]
		}
		out = append(out, ri)
	}
	return out
}

func (ex *Exec) pcString() string {
	var parts []string
	for _, c := range ex.pc {
		parts = append(parts, ex.ts.Show(c))
		if len(parts) > 40 {
			parts = append(parts, "…")
			break
		}
	}
	return strings.Join(parts, " ∧ ")
}

func (ex *Exec) resetPath(item WorkItem) {
	ex.pc = ex.pc[:0]
	ex.pcset = map[int]bool{}
	ex.fixed = map[int]uint64{}
	ex.fixedSet = nil
	ex.model = nil
	ex.prefixModel = item.Model
	if len(item.Prefix) == 0 {
		ex.model = map[string]uint64{}
	}
	prefix := item.Prefix
	ex.prefix = prefix
	ex.pos = 0
	ex.trace = nil
	ex.newWork = nil
	ex.steps = 0
	ex.depth = 0
	ex.stack = ex.stack[:0]
	ex.deferOwner = ex.deferOwner[:0]
	ex.globals = map[*ssa.Global]*Value{}
	ex.initDone = map[*ssa.Package]bool{}
	ex.inputs = nil
	ex.nvar = 0
	ex.covers = map[string]bool{}
	ex.obs = nil
	ex.tainted = false
	ex.permuteMaps = false
	ex.onceDone = map[Ptr]bool{}
	ex.violations = nil
	ex.unknowns = 0
	ex.concretized = 0
	ex.par = nil
	ex.tokSrc = nil
	ex.noSummary = false
	ex.shared = nil
	ex.onceDepth = 0
	ex.lastRaces = nil
	ex.pools = nil
	ex.syncMaps = nil
}

// runPath executes the harness once along the given decision prefix.
func (ex *Exec) runPath(h *HarnessRun, item WorkItem) (res PathResult) {
	ex.resetPath(item)
	ex.hrun = h
	ex.budget = h.Budget
	ex.maxDepth = ex.eng.maxDepth + h.Budget/10000
	defer func() {
		r := recover()
		res.Steps = ex.steps
		res.Decisions = len(ex.trace)
		res.Covers = ex.covers
		res.NewWork = ex.newWork
		res.Tainted = ex.tainted
		res.Unknowns = ex.unknowns
		res.Concret = ex.concretized
		switch r := r.(type) {
		case nil:
			res.Outcome = "ok"
		case pathEnd:
			res.Outcome = r.kind
			res.Msg = r.msg
			if r.kind == "unsupported" {
				res.Msg = r.msg + " @ " + describeStack(ex)
			}
			if r.kind == "budget" {
				ex.reportHang(r.msg)
			}
		case *goPanic:
			res.Outcome = "panic"
			res.Msg = r.String() + " in " + r.where
			ex.reportPanic(r)
		default:
			fmt.Fprintf(os.Stderr, "ENGINE BUG: %v\n  at %s\n  last instr: %s\n", r, describeStack(ex), ex.lastInstr)
			panic(r) // engine bug
		}
		res.Violations = ex.violations
		if len(ex.violations) == 0 && h.sampleThis() && (res.Outcome == "ok" || res.Outcome == "panic") {
			ins, m, v := ex.witness()
			if v == Sat {
				res.Inputs = ins
				res.Sample = &PathSample{PathCond: ex.pcString(), Inputs: ins, Outcome: res.Outcome}
				for _, o := range ex.obs {
					if s, ok := ex.renderObs(o, m); ok {
						res.Obs = append(res.Obs, s)
					} else {
						res.Obs = append(res.Obs, o.Label+"=?")
					}
				}
			}
		}
	}()
	// package initialisers of the code under test and the harness
	for _, p := range ex.eng.initPkgs {
		ex.ensureInit(p)
	}
	ex.inHarness = true
	ex.callFunction(h.Fn, h.argValues(), nil, nil)
	return
}

// renderObs evaluates an observation under a model.
func (ex *Exec) renderObs(o obsRec, m map[string]uint64) (string, bool) {
	switch v := o.Val.(type) {
	case string:
		return o.Label + "=" + v, true
	case int64:
		return fmt.Sprintf("%s=%d", o.Label, v), true
	case *Term:
		u, ok := ex.ts.Eval(v, m)
		if !ok {
			return "", false
		}
		return fmt.Sprintf("%s=%d", o.Label, sext(u, v.bits)), true
	case *SymStr:
		b := make([]byte, len(v.b))
		for i, x := range v.b {
			switch x := x.(type) {
			case int64:
				b[i] = byte(x)
			case *Term:
				u, ok := ex.ts.Eval(x, m)
				if !ok {
					return "", false
				}
				b[i] = byte(u)
			}
		}
		return o.Label + "=" + string(b), true
	}
	return "", false
}

func (ex *Exec) ensureInit(p *ssa.Package) bool {
	if ex.initDone[p] {
		return true
	}
	if !ex.eng.initAllowed(p) {
		return false
	}
	ex.initDone[p] = true
	initFn := p.Func("init")
	if initFn != nil && initFn.Blocks != nil {
		saved := ex.inHarness
		ex.inHarness = false
		ex.invoke(initFn, nil, nil, nil)
		ex.inHarness = saved
	}
	return true
}

// describePanic renders the panic value (calling Error() of error values).
func (ex *Exec) describePanic(gp *goPanic) {
	if gp.rtErr != "" || gp.text != "" {
		return
	}
	defer func() { recover() }()
	iv, ok := gp.val.(Iface)
	if !ok || iv.T == nil {
		return
	}
	if s, ok := ex.forceStr(iv.V).(string); ok {
		gp.text = s
		return
	}
	if m := ex.methodNamed(iv.T, "Error"); m != nil {
		saved := ex.budget
		ex.budget = ex.steps + 100000
		r := ex.forceStr(ex.callFunction(m, []Value{iv.V}, nil, nil))
		ex.budget = saved
		if s, ok := r.(string); ok {
			gp.text = s
		}
	}
}

func (ex *Exec) reportPanic(gp *goPanic) {
	ex.describePanic(gp)
	ins, _, v := ex.witness()
	viol := &Violation{Kind: "panic", Msg: gp.String(), Where: gp.where, Path: ex.trace, Tainted: ex.tainted}
	if v == Sat {
		viol.Inputs = ins
	} else {
		viol.Tainted = true
	}
	ex.violations = append(ex.violations, viol)
}

func (ex *Exec) reportHang(msg string) {
	ins, _, v := ex.witness()
	viol := &Violation{Kind: "hang", Msg: msg, Path: ex.trace, Tainted: ex.tainted, Where: describeStack(ex)}
	if v == Sat {
		viol.Inputs = ins
	} else {
		viol.Tainted = true
	}
	ex.violations = append(ex.violations, viol)
}

// ---------------------------------------------------------------------------

type HarnessRun struct {
	Name         string
	Fn           *ssa.Function
	Args         []int64
	Budget       int
	SampleK      int // sample every k-th leaf for native validation
	MaxPaths     int
	Deadline     time.Time // stop taking new paths after this instant (zero: none)
	KeepAll      bool      // keep the inputs and observations of every path (cross-path comparison)
	mu           sync.Mutex
	leafCount    int
	inconclusive int
}

func (h *HarnessRun) argValues() []Value {
	vals := make([]Value, len(h.Args))
	for i, a := range h.Args {
		vals[i] = a
	}
	return vals
}

func (h *HarnessRun) sampleThis() bool {
	h.mu.Lock()
	defer h.mu.Unlock()
	h.leafCount++
	if h.SampleK <= 0 {
		return h.leafCount == 1
	}
	return h.leafCount%h.SampleK == 1 || h.SampleK == 1
}

type RunStats struct {
	Paths        int
	Outcomes     map[string]int
	Decisions    int
	Steps        int64
	Covers       map[string]int
	Violations   []*Violation
	Tainted      int
	Unknowns     int
	Concretized  int
	Samples      []*PathSample
	Validate     [][]ReplayInput
	ValidateWant []string
	ValidateObs  [][]string
	Unsupported  map[string]int
	Solver       SolverStats
	Wall         time.Duration
	Truncated    bool
	TimedOut     bool
	MaxDecisions int
}

// explore runs the harness over all paths with the given number of workers.
func (e *Engine) explore(h *HarnessRun, workers int) *RunStats {
	st := &RunStats{Outcomes: map[string]int{}, Covers: map[string]int{}, Unsupported: map[string]int{}}
	t0 := time.Now()
	var mu sync.Mutex
	cond := sync.NewCond(&mu)
	work := []WorkItem{{}}
	active := 0
	stop := false
	var wg sync.WaitGroup
	for w := 0; w < workers; w++ {
		wg.Add(1)
		go func(id int) {
			defer wg.Done()
			ex := e.newExec(id)
			defer ex.close()
			npaths := 0
			for {
				mu.Lock()
				for len(work) == 0 && active > 0 && !stop {
					cond.Wait()
				}
				if stop || (len(work) == 0 && active == 0) {
					mu.Unlock()
					cond.Broadcast()
					return
				}
				item := work[len(work)-1]
				work = work[:len(work)-1]
				active++
				mu.Unlock()

				res := ex.runPath(h, item)
				npaths++
				if npaths%2000 == 0 {
					ex.recycle()
				}

				mu.Lock()
				active--
				work = append(work, res.NewWork...)
				st.Paths++
				st.Outcomes[res.Outcome]++
				st.Decisions += res.Decisions
				if res.Decisions > st.MaxDecisions {
					st.MaxDecisions = res.Decisions
				}
				st.Steps += int64(res.Steps)
				for c := range res.Covers {
					st.Covers[c]++
				}
				if res.Tainted {
					st.Tainted++
				}
				st.Unknowns += res.Unknowns
				st.Concretized += res.Concret
				if res.Outcome == "unsupported" {
					st.Unsupported[res.Msg]++
				}
				st.Violations = append(st.Violations, res.Violations...)
				if res.Sample != nil {
					if len(st.Samples) < 12 {
						st.Samples = append(st.Samples, res.Sample)
					}
					if len(st.Validate) < e.maxValidate || (h.KeepAll && len(st.Validate) < 20000) {
						st.Validate = append(st.Validate, res.Inputs)
						st.ValidateWant = append(st.ValidateWant, res.Outcome)
						st.ValidateObs = append(st.ValidateObs, res.Obs)
					}
				}
				if h.MaxPaths > 0 && st.Paths >= h.MaxPaths && len(work) > 0 {
					stop = true
					st.Truncated = true
				}
				if !h.Deadline.IsZero() && len(work) > 0 && time.Now().After(h.Deadline) {
					stop = true
					st.Truncated = true
					st.TimedOut = true
				}
				if len(st.Violations) >= e.maxViolations {
					stop = true
					if len(work) > 0 {
						st.Truncated = true
					}
				}
				mu.Unlock()
				cond.Broadcast()
			}
		}(w)
	}
	wg.Wait()
	e.smu.Lock()
	st.Solver = e.solverTotal
	e.solverTotal = SolverStats{}
	e.smu.Unlock()
	st.Wall = time.Since(t0)
	sort.Slice(st.Violations, func(i, j int) bool {
		return fmt.Sprint(st.Violations[i].Inputs) < fmt.Sprint(st.Violations[j].Inputs)
	})
	return st
}

func (e *Engine) newExec(id int) *Exec {
	ts := NewTermStore()
	ex := &Exec{eng: e, ts: ts, id: id, funcs: map[*ssa.Function]bool{}}
	ex.sol = NewSolver(e.solverKind, ts, e.solverTimeoutMs, e.seed)
	if id == 0 && os.Getenv("GOSYM_SMTLOG") != "" {
		f, _ := os.Create(os.Getenv("GOSYM_SMTLOG"))
		ex.sol.log = f
	}
	return ex
}

// recycle drops the term table and restarts the solver to bound memory.
func (ex *Exec) recycle() {
	ex.flushStats()
	ex.sol.Close()
	ex.closeCross()
	ex.ts = NewTermStore()
	ex.sol = NewSolver(ex.eng.solverKind, ex.ts, ex.eng.solverTimeoutMs, ex.eng.seed)
}

func (ex *Exec) flushStats() {
	ex.eng.smu.Lock()
	ex.eng.fastDecided += ex.ts.Fast.Decided
	ex.eng.smu.Unlock()
	ex.ts.Fast = FastStats{}
	for f := range ex.funcs {
		ex.eng.funcsExecuted.Store(f.String(), true)
	}
	ex.eng.smu.Lock()
	ex.eng.solverTotal.add(ex.sol.stats)
	ex.eng.smu.Unlock()
	ex.sol.stats = SolverStats{}
}

func (ex *Exec) close() {
	ex.flushStats()
	ex.sol.Close()
	ex.closeCross()
}

func (ex *Exec) closeCross() {
	if ex.sol2 != nil {
		ex.sol2.Close()
		ex.sol2 = nil
	}
	if ex.sol3 != nil {
		ex.sol3.Close()
		ex.sol3 = nil
	}
}
