package main

// Value model: concrete structure, symbolic scalars.

import (
	"fmt"
	"go/types"
	"strings"

	"golang.org/x/tools/go/ssa"
)

type Value = any

// Concrete scalars: bool, int64 (every integer kind, normalised to its type), float64, string.
// Symbolic scalars: *Term (Bool or BV of the static type's width).
// Strings may also be *SymStr, *LazyStr or *Opaque.

type Struct []Value
type Array []Value
type Slice []Value // shares its backing array like a Go slice
type Ptr = *Value
type Tuple []Value

type Iface struct {
	T types.Type // nil for the nil interface
	V Value
}

type Closure struct {
	Fn  *ssa.Function
	Env []Value
}

// BoundIntrinsic is a function value implemented by the engine.
type BoundIntrinsic struct {
	Name string
	Fn   func(ex *Exec, args []Value) Value
}

// SymStr is a string of concrete length whose bytes are int64 or 8-bit *Term.
type SymStr struct{ b []Value }

// Opaque is a string whose content is not represented (formatted symbolic data).
type Opaque struct {
	why string
}

// LazyStr is a string computed on demand (error texts).
type LazyStr struct {
	force func() Value
	done  bool
	val   Value
}

// VStr is a symbolic choice among concrete strings: table[sel].
type VStr struct {
	sel   *Term // BV term
	table []string
}

type MapEntry struct {
	K, V Value
	dead bool
}

type Map struct {
	entries []*MapEntry
	idx     map[any]int // concrete hashable keys -> entry index
	n       int
}

func newMap() *Map { return &Map{idx: map[any]int{}} }

type MapIter struct {
	m    *Map
	pos  int
	perm []int // optional symbolic permutation already concretised
}
type StrIter struct {
	s   Value
	pos int
}

func hashable(k Value) (any, bool) {
	switch k := k.(type) {
	case bool, int64, string, float64:
		return k, true
	case Ptr:
		return k, true
	case Iface:
		if k.T == nil {
			return nil, true
		}
		h, ok := hashable(k.V)
		if !ok {
			return nil, false
		}
		return [2]any{typeKey(k.T), h}, true
	case Struct:
		var parts [8]any
		if len(k) > 8 {
			return nil, false
		}
		for i, f := range k {
			h, ok := hashable(f)
			if !ok {
				return nil, false
			}
			parts[i] = h
		}
		return parts, true
	}
	return nil, false
}

func typeKey(t types.Type) string { return types.TypeString(t, nil) }

// copyVal makes a deep copy of aggregates (struct, array) — values, not references.
func copyVal(v Value) Value {
	switch v := v.(type) {
	case Struct:
		r := make(Struct, len(v))
		for i, f := range v {
			r[i] = copyVal(f)
		}
		return r
	case Array:
		r := make(Array, len(v))
		for i, f := range v {
			r[i] = copyVal(f)
		}
		return r
	case Tuple:
		return v
	}
	return v
}

func intKind(t types.Type) (bits int, signed bool, ok bool) {
	b, isBasic := t.Underlying().(*types.Basic)
	if !isBasic {
		return 0, false, false
	}
	switch b.Kind() {
	case types.Int8:
		return 8, true, true
	case types.Int16:
		return 16, true, true
	case types.Int32, types.UntypedRune:
		return 32, true, true
	case types.Int64, types.Int, types.UntypedInt:
		return 64, true, true
	case types.Uint8:
		return 8, false, true
	case types.Uint16:
		return 16, false, true
	case types.Uint32:
		return 32, false, true
	case types.Uint64, types.Uint, types.Uintptr:
		return 64, false, true
	}
	return 0, false, false
}

func isString(t types.Type) bool {
	b, ok := t.Underlying().(*types.Basic)
	return ok && b.Info()&types.IsString != 0
}
func isBool(t types.Type) bool {
	b, ok := t.Underlying().(*types.Basic)
	return ok && b.Info()&types.IsBoolean != 0
}
func isFloat(t types.Type) bool {
	b, ok := t.Underlying().(*types.Basic)
	return ok && b.Info()&types.IsFloat != 0
}

// normInt truncates/sign-extends v to the given integer kind.
func normInt(v int64, bits int, signed bool) int64 {
	if bits >= 64 {
		return v
	}
	if signed {
		return sext(uint64(v)&mask(bits), bits)
	}
	return int64(uint64(v) & mask(bits))
}

func zero(t types.Type) Value {
	switch t := t.(type) {
	case *types.Basic:
		switch {
		case t.Kind() == types.UnsafePointer:
			return Ptr(nil)
		case t.Info()&types.IsBoolean != 0:
			return false
		case t.Info()&types.IsInteger != 0:
			return int64(0)
		case t.Info()&types.IsFloat != 0:
			return float64(0)
		case t.Info()&types.IsString != 0:
			return ""
		case t.Kind() == types.UntypedNil:
			return nil
		}
		panic(fmt.Sprintf("zero of basic %v", t))
	case *types.Pointer:
		return Ptr(nil)
	case *types.Array:
		a := make(Array, t.Len())
		for i := range a {
			a[i] = zero(t.Elem())
		}
		return a
	case *types.Slice:
		return Slice(nil)
	case *types.Struct:
		s := make(Struct, t.NumFields())
		for i := range s {
			s[i] = zero(t.Field(i).Type())
		}
		return s
	case *types.Tuple:
		if t.Len() == 1 {
			return zero(t.At(0).Type())
		}
		s := make(Tuple, t.Len())
		for i := range s {
			s[i] = zero(t.At(i).Type())
		}
		return s
	case *types.Signature:
		return (*ssa.Function)(nil)
	case *types.Interface:
		return Iface{}
	case *types.Map:
		return (*Map)(nil)
	case *types.Chan:
		return (*Chan)(nil)
	case *types.Named:
		return zero(t.Underlying())
	case *types.Alias:
		return zero(types.Unalias(t))
	case *types.TypeParam:
		panic("zero of type parameter")
	}
	panic(fmt.Sprintf("zero: unexpected type %T %v", t, t))
}

// Chan is a channel used by a single goroutine: buffered sends and receives that
// cannot block. Anything that would block (or a select) ends the path as unsupported.
type Chan struct {
	buf    []Value
	cap    int
	closed bool
	elem   types.Type
}

// showVal renders a value for diagnostics.
func showVal(v Value) string {
	switch v := v.(type) {
	case nil:
		return "nil"
	case *Term:
		return "<sym>"
	case *SymStr:
		var sb strings.Builder
		sb.WriteString("sym\"")
		for _, b := range v.b {
			if c, ok := b.(int64); ok {
				sb.WriteString(fmt.Sprintf("%s", strings.Trim(fmt.Sprintf("%q", string(rune(c))), "\"")))
			} else {
				sb.WriteString("?")
			}
		}
		sb.WriteString("\"")
		return sb.String()
	case Struct:
		parts := make([]string, len(v))
		for i, f := range v {
			parts[i] = showVal(f)
		}
		return "{" + strings.Join(parts, " ") + "}"
	case Slice:
		if len(v) > 8 {
			return fmt.Sprintf("[%d elems]", len(v))
		}
		parts := make([]string, len(v))
		for i, f := range v {
			parts[i] = showVal(f)
		}
		return "[" + strings.Join(parts, " ") + "]"
	case Iface:
		if v.T == nil {
			return "nil-iface"
		}
		return fmt.Sprintf("iface(%s)", v.T)
	case Ptr:
		if v == nil {
			return "nil-ptr"
		}
		return "&" + showVal(*v)
	case string:
		return fmt.Sprintf("%q", v)
	}
	return fmt.Sprintf("%v", v)
}
