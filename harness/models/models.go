// Package models holds plain-Go stand-ins for library functions whose real
// bodies are assembly/unsafe/table-driven. The engine redirects calls to the
// real functions here when an argument is symbolic; `go test ./models`
// compares every model with the real function natively.
package models

import (
	"errors"
	"strconv"
)

// IsSpace is unicode.IsSpace written as explicit comparisons (the White_Space
// property); branch-free enough for if-conversion.
func IsSpace(r rune) bool {
	if uint32(r) <= 0xFF {
		return r == '\t' || r == '\n' || r == '\v' || r == '\f' || r == '\r' || r == ' ' || r == 0x85 || r == 0xA0
	}
	return r == 0x1680 || (0x2000 <= r && r <= 0x200a) || r == 0x2028 || r == 0x2029 || r == 0x202f || r == 0x205f || r == 0x3000
}

func indexByte(s string, c byte) int {
	for i := 0; i < len(s); i++ {
		if s[i] == c {
			return i
		}
	}
	return -1
}

// ContainsAny models strings.ContainsAny for ASCII chars sets.
func ContainsAny(s, chars string) bool {
	for i := 0; i < len(s); i++ {
		for j := 0; j < len(chars); j++ {
			if s[i] == chars[j] {
				return true
			}
		}
	}
	return false
}

// Count models strings.Count for a non-empty separator.
func Count(s, sep string) int {
	if len(sep) == 0 {
		n := 0
		for range s {
			n++
		}
		return n + 1
	}
	n := 0
	for i := 0; i+len(sep) <= len(s); {
		if s[i:i+len(sep)] == sep {
			n++
			i += len(sep)
		} else {
			i++
		}
	}
	return n
}

// Join models strings.Join.
func Join(elems []string, sep string) string {
	r := ""
	for i, e := range elems {
		if i > 0 {
			r += sep
		}
		r += e
	}
	return r
}

// ReplaceAll models strings.ReplaceAll for a non-empty old string.
func ReplaceAll(s, old, new string) string {
	if len(old) == 0 {
		panic("models.ReplaceAll: empty old string not modelled")
	}
	r := ""
	start := 0
	for i := 0; i+len(old) <= len(s); {
		if s[i:i+len(old)] == old {
			r += s[start:i] + new
			i += len(old)
			start = i
		} else {
			i++
		}
	}
	return r + s[start:]
}

// ReplacerReplace models (*strings.Replacer).Replace for non-empty old strings: at each
// position the first pair (in argument order) whose old string matches is applied,
// matches do not overlap.
func ReplacerReplace(oldnew []string, s string) string {
	for i := 0; i < len(oldnew); i += 2 {
		if len(oldnew[i]) == 0 {
			panic("models.ReplacerReplace: empty old string not modelled")
		}
	}
	r := ""
	start := 0
	for i := 0; i < len(s); {
		matched := false
		for k := 0; k+1 < len(oldnew); k += 2 {
			old := oldnew[k]
			if i+len(old) <= len(s) && s[i:i+len(old)] == old {
				r += s[start:i] + oldnew[k+1]
				i += len(old)
				start = i
				matched = true
				break
			}
		}
		if !matched {
			i++
		}
	}
	return r + s[start:]
}

// TrimLeft models strings.TrimLeft for an ASCII cutset.
func TrimLeft(s, cutset string) string {
	i := 0
	for i < len(s) && indexByte(cutset, s[i]) >= 0 {
		i++
	}
	return s[i:]
}

// HasPrefix models strings.HasPrefix.
func HasPrefix(s, prefix string) bool {
	return len(s) >= len(prefix) && s[:len(prefix)] == prefix
}

// HasSuffix models strings.HasSuffix.
func HasSuffix(s, suffix string) bool {
	return len(s) >= len(suffix) && s[len(s)-len(suffix):] == suffix
}

// Index models strings.Index.
func Index(s, sub string) int {
	for i := 0; i+len(sub) <= len(s); i++ {
		if s[i:i+len(sub)] == sub {
			return i
		}
	}
	return -1
}

// ParseUint models strconv.ParseUint for bitSize 64: bases 2..36 and base 0
// (prefix-selected: 0x hex, 0o or a leading 0 octal, 0b binary, else decimal),
// returning the same value and error class. Underscore separators (base 0 only)
// are reported as syntax errors here; the lexer never passes them.
func ParseUint(s string, base int, bitSize int) (uint64, error) {
	if s == "" {
		return 0, &strconv.NumError{Func: "ParseUint", Num: s, Err: strconv.ErrSyntax}
	}
	if bitSize != 64 && bitSize != 0 {
		panic("models.ParseUint: bitSize not modelled")
	}
	s0 := s
	switch {
	case 2 <= base && base <= 36:
	case base == 0:
		base = 10
		if s[0] == '0' {
			switch {
			case len(s) >= 3 && (s[1] == 'x' || s[1] == 'X'):
				base = 16
				s = s[2:]
			case len(s) >= 3 && (s[1] == 'o' || s[1] == 'O'):
				base = 8
				s = s[2:]
			case len(s) >= 3 && (s[1] == 'b' || s[1] == 'B'):
				base = 2
				s = s[2:]
			default:
				base = 8
				s = s[1:]
			}
		}
	default:
		return 0, &strconv.NumError{Func: "ParseUint", Num: s0, Err: errors.New("invalid base")}
	}
	cutoff := (1<<64-1)/uint64(base) + 1
	var n uint64
	for i := 0; i < len(s); i++ {
		c := s[i]
		var d byte
		switch {
		case '0' <= c && c <= '9':
			d = c - '0'
		case 'a' <= c && c <= 'z':
			d = c - 'a' + 10
		case 'A' <= c && c <= 'Z':
			d = c - 'A' + 10
		default:
			return 0, &strconv.NumError{Func: "ParseUint", Num: s0, Err: strconv.ErrSyntax}
		}
		if int(d) >= base {
			return 0, &strconv.NumError{Func: "ParseUint", Num: s0, Err: strconv.ErrSyntax}
		}
		if n >= cutoff {
			return 1<<64 - 1, &strconv.NumError{Func: "ParseUint", Num: s0, Err: strconv.ErrRange}
		}
		switch base {
		case 16:
			n <<= 4
		case 8:
			n <<= 3
		case 2:
			n <<= 1
		default:
			n *= uint64(base)
		}
		n1 := n + uint64(d)
		if n1 < n {
			return 1<<64 - 1, &strconv.NumError{Func: "ParseUint", Num: s0, Err: strconv.ErrRange}
		}
		n = n1
	}
	return n, nil
}

// FormatUint models strconv.FormatUint(n, 10). Small values are formatted with
// narrow arithmetic so that symbolic digits stay cheap for the solver.
func FormatUint(n uint64, base int) string {
	if base != 10 {
		panic("models.FormatUint: base not modelled")
	}
	if n <= 0xFFFFF {
		m := uint32(n)
		var buf [7]byte
		i := len(buf)
		for m >= 10 {
			q := m / 10
			i--
			buf[i] = byte('0' + m - q*10)
			m = q
		}
		i--
		buf[i] = byte('0' + m)
		return string(buf[i:])
	}
	var buf [20]byte
	i := len(buf)
	for n >= 10 {
		q := n / 10
		i--
		buf[i] = byte('0' + n - q*10)
		n = q
	}
	i--
	buf[i] = byte('0' + n)
	return string(buf[i:])
}

// JoinErrorText models (*errors.joinError).Error.
func JoinErrorText(errs []error) string {
	r := errs[0].Error()
	for _, e := range errs[1:] {
		r += "\n" + e.Error()
	}
	return r
}

var _ = errors.New
