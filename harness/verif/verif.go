// Package verif is the harness API. The symbolic engine intercepts every
// function here; the bodies below are the native meaning used when a
// counterexample (or a sampled path witness) is replayed against the real build.
package verif

import (
	"encoding/json"
	"fmt"
	"os"
)

// Input is one recorded value (or vector of values) of a replay file.
type Input struct {
	Kind string  `json:"kind"`
	Val  []int64 `json:"val"`
}

// Replay is the content of a replay file.
type Replay struct {
	Property string  `json:"property"`
	Harness  string  `json:"harness"`
	Args     []int64 `json:"args"`
	Inputs   []Input `json:"inputs"`
	Expect   string  `json:"expect"` // "assert:<msg>", "panic", "hang", "ok"
	Note     string  `json:"note,omitempty"`
}

var (
	inputs []Input
	pos    int
	// Observations collected during a native run.
	Observations []string
	Covered      = map[string]bool{}
)

// Load installs the inputs of a replay.
func Load(r *Replay) {
	inputs = r.Inputs
	pos = 0
	Observations = nil
}

// LoadFile reads a replay file.
func LoadFile(path string) (*Replay, error) {
	b, err := os.ReadFile(path)
	if err != nil {
		return nil, err
	}
	r := new(Replay)
	if err := json.Unmarshal(b, r); err != nil {
		return nil, err
	}
	Load(r)
	return r, nil
}

// Outcome signals raised by the native API (recovered by cmd/replay).
type (
	AssertFailed struct{ Msg string }
	AssumeFalse  struct{}
	BadReplay    struct{ Msg string }
)

func next(kind string, n int) []int64 {
	if pos >= len(inputs) {
		panic(BadReplay{fmt.Sprintf("replay exhausted: want %s", kind)})
	}
	in := inputs[pos]
	pos++
	if in.Kind != kind || (n >= 0 && len(in.Val) != n) {
		panic(BadReplay{fmt.Sprintf("replay mismatch: want %s[%d], have %s[%d]", kind, n, in.Kind, len(in.Val))})
	}
	return in.Val
}

// Byte returns an arbitrary byte.
func Byte() byte { return byte(next("byte", 1)[0]) }

// Bytes returns a string of n arbitrary bytes.
func Bytes(n int) string {
	v := next("bytes", n)
	b := make([]byte, n)
	for i := range b {
		b[i] = byte(v[i])
	}
	return string(b)
}

// BytesIn returns a string of n arbitrary bytes drawn from alphabet.
func BytesIn(n int, alphabet string) string {
	s := Bytes(n)
	for i := 0; i < len(s); i++ {
		ok := false
		for j := 0; j < len(alphabet); j++ {
			if s[i] == alphabet[j] {
				ok = true
			}
		}
		if !ok {
			panic(AssumeFalse{})
		}
	}
	return s
}

// Bool returns an arbitrary boolean.
func Bool() bool { return next("bool", 1)[0] != 0 }

// IntRange returns an arbitrary integer x with lo <= x < hi.
func IntRange(lo, hi int) int {
	v := int(next("intrange", 1)[0])
	if v < lo || v >= hi {
		panic(AssumeFalse{})
	}
	return v
}

// Assume restricts the inputs considered.
func Assume(b bool) {
	if !b {
		panic(AssumeFalse{})
	}
}

// Assert states the property.
func Assert(b bool, msg string) {
	if !b {
		panic(AssertFailed{msg})
	}
}

// Fail is Assert(false, msg).
func Fail(msg string) { panic(AssertFailed{msg}) }

// Cover marks a reachability witness.
func Cover(label string) { Covered[label] = true }

// Obs records an observable value; the engine's value under the path's
// witness must equal the native one.
func Obs(label string, v string) { Observations = append(Observations, label+"="+v) }

// ObsInt records an observable integer.
func ObsInt(label string, v int) { Observations = append(Observations, fmt.Sprintf("%s=%d", label, v)) }

// PermuteMaps makes map iteration order an explicit symbolic choice in the
// engine; natively Go's own randomisation applies.
func PermuteMaps() {}

// Concrete tells the engine to fork over the values of v (no-op natively).
func Concrete(v int) int { return v }

// ConcreteStr tells the engine to fork over the content of s (no-op natively).
func ConcreteStr(s string) string { return s }

// SlotText is the text of one token slot: the lexeme, padding, newline.
func SlotText(lex string, width int) string {
	s := lex
	for len(s) < width-1 {
		s += " "
	}
	return s + "\n"
}

// SlotWidth is the slot width for a vocabulary.
func SlotWidth(vocab []string) int {
	w := 0
	for _, l := range vocab {
		if len(l) > w {
			w = len(l)
		}
	}
	return w + 2
}

// Tokens returns a source made of k token slots, each holding an arbitrary
// lexeme of vocab. In the engine, parser.Scan on exactly this string is
// summarised from tables derived from the real lexer; natively it is plain text.
func Tokens(k int, vocab []string) string {
	w := SlotWidth(vocab)
	s := ""
	for i := 0; i < k; i++ {
		j := int(next("tok", 1)[0])
		if j < 0 || j >= len(vocab) {
			panic(AssumeFalse{})
		}
		s += SlotText(vocab[j], w)
	}
	return s
}

// TokenSeq is Tokens with some slots fixed: slots[i] >= 0 fixes slot i to
// vocab[slots[i]], -1 leaves it arbitrary.
func TokenSeq(vocab []string, slots []int) string {
	w := SlotWidth(vocab)
	s := ""
	for _, f := range slots {
		j := f
		if f < 0 {
			j = int(next("tok", 1)[0])
			if j < 0 || j >= len(vocab) {
				panic(AssumeFalse{})
			}
		}
		s += SlotText(vocab[j], w)
	}
	return s
}

// MarkShared (engine) records the heap reachable from the package-level state
// of the code under test and from vals; natively a no-op.
func MarkShared(vals ...any) {}

// SharedWrites (engine) lists shared locations written since the mark outside
// once-only initialisation; natively unknown (nil).
func SharedWrites() []string { return nil }

// OnceWrites (engine) counts writes performed inside sync.Once initialisers since the mark.
func OnceWrites() int { return 0 }

// ResetWriteLog clears the write log.
func ResetWriteLog() {}

// Par runs f and g concurrently. In the engine every interleaving at the
// granularity of visible operations is explored and the locations of data
// races (conflicting accesses unordered by happens-before) are returned;
// natively two goroutines run and the race detector of a -race build reports.
func Par(f, g func()) []string {
	done := make(chan any, 2)
	run := func(h func()) {
		defer func() { done <- recover() }()
		h()
	}
	go run(f)
	go run(g)
	a, b := <-done, <-done
	if a != nil {
		panic(a)
	}
	if b != nil {
		panic(b)
	}
	return nil
}
