package verif

// The value algebra of the SQL oracles: an uninterpreted sort Val with
// isNull/truth predicates, constants NULL/TRUE/FALSE and uninterpreted
// functions. In the engine these are SMT terms; natively they are term trees
// and AssertValid decides validity with one z3 call (so that counterexamples
// replay against the real build with the same verdict).

import (
	"bytes"
	"fmt"
	"os/exec"
	"sort"
	"strings"
)

type vnode struct {
	op   string // "const", "app", "ite"
	name string
	args []*vnode
	cond *fnode
}

type fnode struct {
	op   string // "eq", "isnull", "truth", "not", "and", "or", "true"
	a, b *vnode
	f, g *fnode
}

// Val is a value of the SQL value domain.
type Val struct{ n *vnode }

// Form is a formula over Vals.
type Form struct{ n *fnode }

func smtName(s string) string {
	var sb strings.Builder
	sb.WriteString("v_")
	for i := 0; i < len(s); i++ {
		c := s[i]
		if ('a' <= c && c <= 'z') || ('A' <= c && c <= 'Z') || ('0' <= c && c <= '9') {
			sb.WriteByte(c)
		} else {
			fmt.Fprintf(&sb, "_%02x", c)
		}
	}
	return sb.String()
}

// VConst is a free constant (column, literal, parameter).
func VConst(name string) Val { return Val{&vnode{op: "const", name: name}} }

// VNull, VTrue, VFalse are the interpreted constants.
func VNull() Val  { return Val{&vnode{op: "const", name: "\x00NULL"}} }
func VTrue() Val  { return Val{&vnode{op: "const", name: "\x00TRUE"}} }
func VFalse() Val { return Val{&vnode{op: "const", name: "\x00FALSE"}} }

// VApp applies an uninterpreted function.
func VApp(fn string, args ...Val) Val {
	n := &vnode{op: "app", name: fn}
	for _, a := range args {
		n.args = append(n.args, a.n)
	}
	return Val{n}
}

// VIte is if c then a else b.
func VIte(c Form, a, b Val) Val { return Val{&vnode{op: "ite", cond: c.n, args: []*vnode{a.n, b.n}}} }

func FEq(a, b Val) Form  { return Form{&fnode{op: "eq", a: a.n, b: b.n}} }
func FIsNull(a Val) Form { return Form{&fnode{op: "isnull", a: a.n}} }

// FTruth holds when a is not NULL and true.
func FTruth(a Val) Form { return Form{&fnode{op: "truth", a: a.n}} }
func FNot(f Form) Form  { return Form{&fnode{op: "not", f: f.n}} }
func FAnd(f, g Form) Form {
	return Form{&fnode{op: "and", f: f.n, g: g.n}}
}
func FOr(f, g Form) Form { return Form{&fnode{op: "or", f: f.n, g: g.n}} }
func FIff(f, g Form) Form {
	return FOr(FAnd(f, g), FAnd(FNot(f), FNot(g)))
}

type smtCtx struct {
	consts map[string]bool
	funcs  map[string]int
}

func (c *smtCtx) val(n *vnode) string {
	switch n.op {
	case "const":
		switch n.name {
		case "\x00NULL":
			return "VNULL"
		case "\x00TRUE":
			return "VTRUE"
		case "\x00FALSE":
			return "VFALSE"
		}
		s := smtName(n.name)
		c.consts[s] = true
		return s
	case "app":
		s := "f" + smtName(n.name) + fmt.Sprintf("_%d", len(n.args))
		c.funcs[s] = len(n.args)
		if len(n.args) == 0 {
			return s
		}
		parts := []string{s}
		for _, a := range n.args {
			parts = append(parts, c.val(a))
		}
		return "(" + strings.Join(parts, " ") + ")"
	case "ite":
		return "(ite " + c.form(n.cond) + " " + c.val(n.args[0]) + " " + c.val(n.args[1]) + ")"
	}
	panic("val")
}

func (c *smtCtx) form(f *fnode) string {
	switch f.op {
	case "eq":
		return "(= " + c.val(f.a) + " " + c.val(f.b) + ")"
	case "isnull":
		return "(isNull " + c.val(f.a) + ")"
	case "truth":
		v := c.val(f.a)
		return "(and (not (isNull " + v + ")) (truth " + v + "))"
	case "not":
		return "(not " + c.form(f.f) + ")"
	case "and":
		return "(and " + c.form(f.f) + " " + c.form(f.g) + ")"
	case "or":
		return "(or " + c.form(f.f) + " " + c.form(f.g) + ")"
	}
	panic("form")
}

// ValPrelude declares the sort, predicates, constants and axioms.
const ValPrelude = `(declare-sort Val 0)
(declare-fun isNull (Val) Bool)
(declare-fun truth (Val) Bool)
(declare-const VNULL Val)
(declare-const VTRUE Val)
(declare-const VFALSE Val)
(assert (isNull VNULL))
(assert (not (isNull VTRUE)))
(assert (not (isNull VFALSE)))
(assert (truth VTRUE))
(assert (not (truth VFALSE)))
`

// Valid decides whether f holds for every interpretation (natively: one z3 call).
func Valid(f Form) (bool, error) {
	c := &smtCtx{consts: map[string]bool{}, funcs: map[string]int{}}
	body := c.form(f.n)
	var sb strings.Builder
	sb.WriteString(ValPrelude)
	var names []string
	for n := range c.consts {
		names = append(names, n)
	}
	sort.Strings(names)
	for _, n := range names {
		fmt.Fprintf(&sb, "(declare-const %s Val)\n", n)
	}
	names = names[:0]
	for n := range c.funcs {
		names = append(names, n)
	}
	sort.Strings(names)
	for _, n := range names {
		fmt.Fprintf(&sb, "(declare-fun %s (%s) Val)\n", n, strings.TrimSpace(strings.Repeat("Val ", c.funcs[n])))
	}
	fmt.Fprintf(&sb, "(assert (not %s))\n(check-sat)\n", body)
	cmd := exec.Command("z3", "-in")
	cmd.Stdin = strings.NewReader(sb.String())
	var out bytes.Buffer
	cmd.Stdout = &out
	cmd.Stderr = &out
	if err := cmd.Run(); err != nil {
		return false, fmt.Errorf("z3: %v: %s", err, out.String())
	}
	switch strings.TrimSpace(out.String()) {
	case "unsat":
		return true, nil
	case "sat":
		return false, nil
	}
	return false, fmt.Errorf("z3: %s", out.String())
}

// AssertValid states that f holds for every row and every interpretation of the uninterpreted functions.
func AssertValid(f Form, msg string) {
	ok, err := Valid(f)
	if err != nil {
		panic(BadReplay{err.Error()})
	}
	if !ok {
		panic(AssertFailed{msg})
	}
}
