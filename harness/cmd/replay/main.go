// Command replay runs one harness natively on the inputs of a replay file.
// Exit status: 0 harness passed, 3 assertion failed, 4 panic in the code under
// test, 5 assumption false / unusable replay. A hang is detected by the caller's
// watchdog. With -obs the observations are printed one per line.
package main

import (
	"flag"
	"fmt"
	"os"
	"runtime/debug"
	"strings"

	"verifh/h"
	"verifh/verif"
)

func main() {
	obs := flag.Bool("obs", false, "print observations")
	has := flag.String("has", "", "exit 0 iff every comma-separated harness name is registered")
	flag.Parse()
	if *has != "" {
		for _, n := range strings.Split(*has, ",") {
			if _, ok := h.Registry[n]; !ok {
				fmt.Println("unregistered harness:", n)
				os.Exit(1)
			}
		}
		os.Exit(0)
	}
	if flag.NArg() != 1 {
		fmt.Fprintln(os.Stderr, "usage: replay [-obs] file.json")
		os.Exit(2)
	}
	r, err := verif.LoadFile(flag.Arg(0))
	if err != nil {
		fmt.Fprintln(os.Stderr, err)
		os.Exit(2)
	}
	fn, ok := h.Registry[r.Harness]
	if !ok {
		fmt.Fprintln(os.Stderr, "unknown harness", r.Harness)
		os.Exit(2)
	}
	code := run(fn, r)
	if *obs {
		for _, o := range verif.Observations {
			fmt.Printf("OBS %q\n", o)
		}
	}
	os.Exit(code)
}

func run(fn func(args []int64), r *verif.Replay) (code int) {
	defer func() {
		switch p := recover().(type) {
		case nil:
		case verif.AssertFailed:
			fmt.Printf("ASSERT-FAILED: %s\n", p.Msg)
			code = 3
		case verif.AssumeFalse:
			fmt.Println("ASSUME-FALSE")
			code = 5
		case verif.BadReplay:
			fmt.Printf("BAD-REPLAY: %s\n", p.Msg)
			code = 5
		default:
			fmt.Printf("PANIC: %v\n", p)
			os.Stdout.Write(debug.Stack())
			code = 4
		}
	}()
	fn(r.Args)
	fmt.Println("PASSED")
	return 0
}
