module verifh

go 1.23

require github.com/runreveal/pql v0.0.0

require golang.org/x/exp v0.0.0-20240213143201-ec583247a57a // indirect

replace github.com/runreveal/pql => /repo
