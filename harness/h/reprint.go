package h

// Re-printer: walks a syntax tree through exported fields only and yields the
// token sequence it represents, the spans the tree records for those tokens,
// and the extent of every node. Independent of parser.Walk and of the Span
// methods. Oracle of C08, C10, C11.

import (
	"github.com/runreveal/pql/parser"
)

// PTok is one token the tree accounts for.
type PTok struct {
	Kind    parser.TokenKind
	Value   string   // for identifier/literal tokens whose text the tree stores
	Alts    []string // for keyword-like identifiers: accepted spellings
	Label   string   // "call-rparen", "summarize-by", ...
	HasSpan bool     // the tree records a span for this token
	Span    parser.Span
	Partial bool // the recorded span covers this token and the next (sort ... by)
}

// PNode is a node with the index range [First,Last] of its tokens in the re-print.
type PNode struct {
	Node        parser.Node
	Parent      int // index in the node list, -1 for the statement
	First, Last int
	Required    bool // identifier or expression node: Walk must visit it exactly once
}

type printer struct {
	toks  []PTok
	nodes []PNode
	bad   string // set when the tree cannot be printed (nil where a node is required)
}

func (p *printer) tok(k parser.TokenKind, span parser.Span, label string) {
	p.toks = append(p.toks, PTok{Kind: k, Label: label, HasSpan: true, Span: span})
}

func (p *printer) word(span parser.Span, label string, alts ...string) {
	p.toks = append(p.toks, PTok{Kind: parser.TokenIdentifier, Alts: alts, Label: label, HasSpan: true, Span: span})
}

func (p *printer) open(n parser.Node, parent int, required bool) int {
	p.nodes = append(p.nodes, PNode{Node: n, Parent: parent, First: len(p.toks), Required: required})
	return len(p.nodes) - 1
}

func (p *printer) close(i int) {
	p.nodes[i].Last = len(p.toks) - 1
}

func (p *printer) ident(id *parser.Ident, parent int, required bool) {
	if id == nil {
		p.bad = "nil identifier where one is required"
		return
	}
	i := p.open(id, parent, required)
	k := parser.TokenIdentifier
	if id.Quoted {
		k = parser.TokenQuotedIdentifier
	}
	p.toks = append(p.toks, PTok{Kind: k, Value: id.Name, HasSpan: true, Span: id.NameSpan, Label: "name"})
	p.close(i)
}

func (p *printer) commaSep(n int, f func(i int)) {
	for i := 0; i < n; i++ {
		if i > 0 {
			p.toks = append(p.toks, PTok{Kind: parser.TokenComma, Label: "list-comma"})
		}
		f(i)
	}
}

func (p *printer) expr(x parser.Expr, parent int) {
	switch x := x.(type) {
	case nil:
		p.bad = "nil expression where one is required"
	case *parser.BinaryExpr:
		i := p.open(x, parent, true)
		p.expr(x.X, i)
		p.tok(x.Op, x.OpSpan, "binary-op")
		p.expr(x.Y, i)
		p.close(i)
	case *parser.UnaryExpr:
		i := p.open(x, parent, true)
		p.tok(x.Op, x.OpSpan, "unary-op")
		p.expr(x.X, i)
		p.close(i)
	case *parser.InExpr:
		i := p.open(x, parent, true)
		p.expr(x.X, i)
		p.tok(parser.TokenIn, x.In, "in")
		p.tok(parser.TokenLParen, x.Lparen, "in-lparen")
		p.commaSep(len(x.Vals), func(k int) { p.expr(x.Vals[k], i) })
		p.tok(parser.TokenRParen, x.Rparen, "in-rparen")
		p.close(i)
	case *parser.ParenExpr:
		i := p.open(x, parent, true)
		p.tok(parser.TokenLParen, x.Lparen, "lparen")
		p.expr(x.X, i)
		p.tok(parser.TokenRParen, x.Rparen, "rparen")
		p.close(i)
	case *parser.BasicLit:
		i := p.open(x, parent, true)
		p.toks = append(p.toks, PTok{Kind: x.Kind, Value: x.Value, HasSpan: true, Span: x.ValueSpan, Label: "literal"})
		p.close(i)
	case *parser.CallExpr:
		i := p.open(x, parent, true)
		if x.Func == nil {
			p.bad = "call without function name"
			return
		}
		p.toks = append(p.toks, PTok{Kind: parser.TokenIdentifier, Value: x.Func.Name, HasSpan: true, Span: x.Func.NameSpan, Label: "func-name"})
		p.tok(parser.TokenLParen, x.Lparen, "call-lparen")
		p.commaSep(len(x.Args), func(k int) { p.expr(x.Args[k], i) })
		p.tok(parser.TokenRParen, x.Rparen, "call-rparen")
		p.close(i)
	case *parser.IndexExpr:
		i := p.open(x, parent, true)
		p.expr(x.X, i)
		p.tok(parser.TokenLBracket, x.Lbrack, "lbrack")
		p.expr(x.Index, i)
		p.tok(parser.TokenRBracket, x.Rbrack, "rbrack")
		p.close(i)
	case *parser.QualifiedIdent:
		if x == nil {
			p.bad = "nil qualified identifier"
			return
		}
		i := p.open(x, parent, true)
		for k, part := range x.Parts {
			if k > 0 {
				p.toks = append(p.toks, PTok{Kind: parser.TokenDot, Label: "dot"})
			}
			p.ident(part, i, true)
		}
		p.close(i)
	default:
		p.bad = "unknown expression node"
	}
}

func (p *printer) sortTerm(t *parser.SortTerm, parent int) {
	if t == nil {
		p.bad = "nil sort term"
		return
	}
	i := p.open(t, parent, false)
	p.expr(t.X, i)
	if t.AscDescSpan.IsValid() {
		if t.Asc {
			p.word(t.AscDescSpan, "asc", "asc")
		} else {
			p.word(t.AscDescSpan, "desc", "desc")
		}
	}
	if t.NullsSpan.IsValid() {
		p.toks = append(p.toks, PTok{Kind: parser.TokenIdentifier, Alts: []string{"nulls"}, Label: "nulls", HasSpan: true, Span: t.NullsSpan, Partial: true})
		if t.NullsFirst {
			p.toks = append(p.toks, PTok{Kind: parser.TokenIdentifier, Alts: []string{"first"}, Label: "nulls-first"})
		} else {
			p.toks = append(p.toks, PTok{Kind: parser.TokenIdentifier, Alts: []string{"last"}, Label: "nulls-last"})
		}
	}
	p.close(i)
}

func (p *printer) tabular(x *parser.TabularExpr, parent int) {
	if x == nil {
		p.bad = "nil tabular expression"
		return
	}
	i := p.open(x, parent, false)
	switch src := x.Source.(type) {
	case *parser.TableRef:
		j := p.open(src, i, false)
		p.ident(src.Table, j, true)
		p.close(j)
	default:
		p.bad = "unknown data source"
	}
	for _, op := range x.Operators {
		p.operator(op, i)
	}
	p.close(i)
}

func (p *printer) operator(op parser.TabularOperator, parent int) {
	switch op := op.(type) {
	case *parser.CountOperator:
		i := p.open(op, parent, false)
		p.tok(parser.TokenPipe, op.Pipe, "pipe")
		p.word(op.Keyword, "keyword", "count")
		p.close(i)
	case *parser.WhereOperator:
		i := p.open(op, parent, false)
		p.tok(parser.TokenPipe, op.Pipe, "pipe")
		p.word(op.Keyword, "keyword", "where", "filter")
		p.expr(op.Predicate, i)
		p.close(i)
	case *parser.SortOperator:
		i := p.open(op, parent, false)
		p.tok(parser.TokenPipe, op.Pipe, "pipe")
		p.toks = append(p.toks, PTok{Kind: parser.TokenIdentifier, Alts: []string{"sort", "order"}, Label: "keyword", HasSpan: true, Span: op.Keyword, Partial: true})
		p.toks = append(p.toks, PTok{Kind: parser.TokenBy, Label: "sort-by"})
		p.commaSep(len(op.Terms), func(k int) { p.sortTerm(op.Terms[k], i) })
		if len(op.Terms) == 0 {
			p.bad = "sort without terms"
		}
		p.close(i)
	case *parser.TakeOperator:
		i := p.open(op, parent, false)
		p.tok(parser.TokenPipe, op.Pipe, "pipe")
		p.word(op.Keyword, "keyword", "take", "limit")
		p.expr(op.RowCount, i)
		p.close(i)
	case *parser.TopOperator:
		i := p.open(op, parent, false)
		p.tok(parser.TokenPipe, op.Pipe, "pipe")
		p.word(op.Keyword, "keyword", "top")
		p.expr(op.RowCount, i)
		p.tok(parser.TokenBy, op.By, "top-by")
		p.sortTerm(op.Col, i)
		p.close(i)
	case *parser.ProjectOperator:
		i := p.open(op, parent, false)
		p.tok(parser.TokenPipe, op.Pipe, "pipe")
		p.word(op.Keyword, "keyword", "project")
		if len(op.Cols) == 0 {
			p.bad = "project without columns"
		}
		p.commaSep(len(op.Cols), func(k int) {
			c := op.Cols[k]
			j := p.open(c, i, false)
			p.ident(c.Name, j, true)
			if c.X != nil {
				p.tok(parser.TokenAssign, c.Assign, "assign")
				p.expr(c.X, j)
			}
			p.close(j)
		})
		p.close(i)
	case *parser.ExtendOperator:
		i := p.open(op, parent, false)
		p.tok(parser.TokenPipe, op.Pipe, "pipe")
		p.word(op.Keyword, "keyword", "extend")
		if len(op.Cols) == 0 {
			p.bad = "extend without columns"
		}
		p.commaSep(len(op.Cols), func(k int) {
			c := op.Cols[k]
			j := p.open(c, i, false)
			if c.Name != nil {
				p.ident(c.Name, j, true)
				p.tok(parser.TokenAssign, c.Assign, "assign")
			}
			p.expr(c.X, j)
			p.close(j)
		})
		p.close(i)
	case *parser.SummarizeOperator:
		i := p.open(op, parent, false)
		p.tok(parser.TokenPipe, op.Pipe, "pipe")
		p.word(op.Keyword, "keyword", "summarize")
		col := func(c *parser.SummarizeColumn) {
			j := p.open(c, i, false)
			if c.Name != nil {
				p.ident(c.Name, j, true)
				p.tok(parser.TokenAssign, c.Assign, "assign")
			}
			p.expr(c.X, j)
			p.close(j)
		}
		p.commaSep(len(op.Cols), func(k int) { col(op.Cols[k]) })
		if op.By.IsValid() || len(op.GroupBy) > 0 {
			p.tok(parser.TokenBy, op.By, "summarize-by")
			p.commaSep(len(op.GroupBy), func(k int) { col(op.GroupBy[k]) })
			if len(op.GroupBy) == 0 {
				p.bad = "summarize by without keys"
			}
		} else if len(op.Cols) == 0 {
			p.bad = "summarize without columns"
		}
		p.close(i)
	case *parser.JoinOperator:
		i := p.open(op, parent, false)
		p.tok(parser.TokenPipe, op.Pipe, "pipe")
		p.word(op.Keyword, "keyword", "join")
		if op.Flavor != nil {
			p.word(op.Kind, "kind", "kind")
			p.tok(parser.TokenAssign, op.KindAssign, "kind-assign")
			p.toks = append(p.toks, PTok{Kind: parser.TokenIdentifier, Value: op.Flavor.Name, HasSpan: true, Span: op.Flavor.NameSpan, Label: "join-flavor"})
		}
		p.tok(parser.TokenLParen, op.Lparen, "join-lparen")
		p.tabular(op.Right, i)
		p.tok(parser.TokenRParen, op.Rparen, "join-rparen")
		p.word(op.On, "on", "on")
		if len(op.Conditions) == 0 {
			p.bad = "join without conditions"
		}
		p.commaSep(len(op.Conditions), func(k int) { p.expr(op.Conditions[k], i) })
		p.close(i)
	case *parser.AsOperator:
		i := p.open(op, parent, false)
		p.tok(parser.TokenPipe, op.Pipe, "pipe")
		p.word(op.Keyword, "keyword", "as")
		p.ident(op.Name, i, true)
		p.close(i)
	case *parser.RenderOperator:
		i := p.open(op, parent, false)
		p.tok(parser.TokenPipe, op.Pipe, "pipe")
		p.word(op.Keyword, "keyword", "render")
		p.ident(op.ChartType, i, true)
		if op.With.IsValid() {
			p.word(op.With, "with", "with")
			p.tok(parser.TokenLParen, op.Lparen, "render-lparen")
			p.commaSep(len(op.Props), func(k int) {
				pr := op.Props[k]
				if pr == nil {
					p.bad = "nil render property"
					return
				}
				// RenderProperty is not a Node the traversal visits itself
				p.ident(pr.Name, i, true)
				p.tok(parser.TokenAssign, pr.Assign, "assign")
				p.expr(pr.Value, i)
			})
			p.tok(parser.TokenRParen, op.Rparen, "render-rparen")
		}
		p.close(i)
	default:
		p.bad = "unknown operator node"
	}
}

func (p *printer) statement(s parser.Statement) {
	switch s := s.(type) {
	case *parser.LetStatement:
		i := p.open(s, -1, false)
		p.word(s.Keyword, "keyword", "let")
		p.ident(s.Name, i, true)
		p.tok(parser.TokenAssign, s.Assign, "assign")
		p.expr(s.X, i)
		p.close(i)
	case *parser.TabularExpr:
		p.tabular(s, -1)
	default:
		p.bad = "unknown statement node"
	}
}

// Reprint returns the tokens and nodes of one statement.
func Reprint(s parser.Statement) (toks []PTok, nodes []PNode, bad string) {
	p := &printer{}
	p.statement(s)
	return p.toks, p.nodes, p.bad
}

func inAlts(v string, alts []string) bool {
	for _, a := range alts {
		if v == a {
			return true
		}
	}
	return false
}

// tokMatches reports whether source token t is the token e the tree accounts for.
func tokMatches(t parser.Token, e PTok) bool {
	if t.Kind != e.Kind {
		return false
	}
	switch e.Kind {
	case parser.TokenIdentifier:
		if e.Alts != nil {
			return inAlts(t.Value, e.Alts)
		}
		return t.Value == e.Value
	case parser.TokenQuotedIdentifier, parser.TokenNumber, parser.TokenString:
		return t.Value == e.Value
	}
	return true
}

// MatchStatement checks that the source tokens src (one statement, no
// semicolons) are exactly the tokens the tree accounts for, allowing only a
// comma directly before a call's closing parenthesis or before summarize's by.
// It returns "" or a description of the first token not accounted for, and the
// index of the source token matched by each re-printed token.
func MatchStatement(src []parser.Token, exp []PTok) (string, []int) {
	at := make([]int, len(exp))
	i := 0
	for j := 0; j < len(exp); j++ {
		if i < len(src) && src[i].Kind == parser.TokenComma && exp[j].Kind != parser.TokenComma &&
			(exp[j].Label == "call-rparen" || exp[j].Label == "summarize-by") {
			i++ // permitted omission
		}
		if i >= len(src) {
			return "the tree contains a token the source does not have", at
		}
		if !tokMatches(src[i], exp[j]) {
			return "a source token is not represented in the tree", at
		}
		at[j] = i
		i++
	}
	if i < len(src) {
		return "source tokens after the end of the statement's tree", at
	}
	return "", at
}
