package h

import (
	"github.com/runreveal/pql"
	"github.com/runreveal/pql/parser"

	"verifh/verif"
)

// spanCollector gathers every span a (possibly partial) tree records or reports,
// tolerating nil nodes everywhere.
type spanCollector struct{ spans []parser.Span }

func (c *spanCollector) add(s parser.Span)  { c.spans = append(c.spans, s) }
func (c *spanCollector) node(n parser.Node) { c.add(n.Span()) }
func (c *spanCollector) ident(id *parser.Ident) {
	if id != nil {
		c.add(id.NameSpan)
		c.node(id)
	}
}

func (c *spanCollector) expr(x parser.Expr) {
	switch x := x.(type) {
	case nil:
	case *parser.BinaryExpr:
		if x == nil {
			return
		}
		c.node(x)
		c.add(x.OpSpan)
		c.expr(x.X)
		c.expr(x.Y)
	case *parser.UnaryExpr:
		if x == nil {
			return
		}
		c.node(x)
		c.add(x.OpSpan)
		c.expr(x.X)
	case *parser.InExpr:
		if x == nil {
			return
		}
		c.node(x)
		c.add(x.In)
		c.add(x.Lparen)
		c.add(x.Rparen)
		c.expr(x.X)
		for _, v := range x.Vals {
			c.expr(v)
		}
	case *parser.ParenExpr:
		if x == nil {
			return
		}
		c.node(x)
		c.add(x.Lparen)
		c.add(x.Rparen)
		c.expr(x.X)
	case *parser.BasicLit:
		if x == nil {
			return
		}
		c.node(x)
		c.add(x.ValueSpan)
	case *parser.CallExpr:
		if x == nil {
			return
		}
		c.node(x)
		c.ident(x.Func)
		c.add(x.Lparen)
		c.add(x.Rparen)
		for _, a := range x.Args {
			c.expr(a)
		}
	case *parser.IndexExpr:
		if x == nil {
			return
		}
		c.node(x)
		c.add(x.Lbrack)
		c.add(x.Rbrack)
		c.expr(x.X)
		c.expr(x.Index)
	case *parser.QualifiedIdent:
		if x == nil {
			return
		}
		c.node(x)
		for _, p := range x.Parts {
			c.ident(p)
		}
	}
}

func (c *spanCollector) sortTerm(t *parser.SortTerm) {
	if t == nil {
		return
	}
	c.node(t)
	c.add(t.AscDescSpan)
	c.add(t.NullsSpan)
	c.expr(t.X)
}

func (c *spanCollector) tabular(x *parser.TabularExpr) {
	if x == nil {
		return
	}
	c.node(x)
	if ref, ok := x.Source.(*parser.TableRef); ok && ref != nil {
		c.node(ref)
		c.ident(ref.Table)
	}
	for _, op := range x.Operators {
		switch op := op.(type) {
		case *parser.CountOperator:
			c.node(op)
			c.add(op.Pipe)
			c.add(op.Keyword)
		case *parser.WhereOperator:
			c.node(op)
			c.add(op.Pipe)
			c.add(op.Keyword)
			c.expr(op.Predicate)
		case *parser.SortOperator:
			c.node(op)
			c.add(op.Pipe)
			c.add(op.Keyword)
			for _, t := range op.Terms {
				c.sortTerm(t)
			}
		case *parser.TakeOperator:
			c.node(op)
			c.add(op.Pipe)
			c.add(op.Keyword)
			c.expr(op.RowCount)
		case *parser.TopOperator:
			c.node(op)
			c.add(op.Pipe)
			c.add(op.Keyword)
			c.add(op.By)
			c.expr(op.RowCount)
			c.sortTerm(op.Col)
		case *parser.ProjectOperator:
			c.node(op)
			c.add(op.Pipe)
			c.add(op.Keyword)
			for _, col := range op.Cols {
				if col != nil {
					c.node(col)
					c.add(col.Assign)
					c.ident(col.Name)
					c.expr(col.X)
				}
			}
		case *parser.ExtendOperator:
			c.node(op)
			c.add(op.Pipe)
			c.add(op.Keyword)
			for _, col := range op.Cols {
				if col != nil {
					c.node(col)
					c.add(col.Assign)
					c.ident(col.Name)
					c.expr(col.X)
				}
			}
		case *parser.SummarizeOperator:
			c.node(op)
			c.add(op.Pipe)
			c.add(op.Keyword)
			c.add(op.By)
			for _, col := range append(append([]*parser.SummarizeColumn{}, op.Cols...), op.GroupBy...) {
				if col != nil {
					c.node(col)
					c.add(col.Assign)
					c.ident(col.Name)
					c.expr(col.X)
				}
			}
		case *parser.JoinOperator:
			c.node(op)
			c.add(op.Pipe)
			c.add(op.Keyword)
			c.add(op.Kind)
			c.add(op.KindAssign)
			c.add(op.Lparen)
			c.add(op.Rparen)
			c.add(op.On)
			c.ident(op.Flavor)
			c.tabular(op.Right)
			for _, x := range op.Conditions {
				c.expr(x)
			}
		case *parser.AsOperator:
			c.node(op)
			c.add(op.Pipe)
			c.add(op.Keyword)
			c.ident(op.Name)
		case *parser.RenderOperator:
			c.node(op)
			c.add(op.Pipe)
			c.add(op.Keyword)
			c.add(op.With)
			c.add(op.Lparen)
			c.add(op.Rparen)
			c.ident(op.ChartType)
			for _, p := range op.Props {
				if p != nil {
					c.node(p)
					c.add(p.Assign)
					c.ident(p.Name)
					c.expr(p.Value)
				}
			}
		}
	}
}

func (c *spanCollector) statement(s parser.Statement) {
	switch s := s.(type) {
	case *parser.LetStatement:
		if s == nil {
			return
		}
		c.node(s)
		c.add(s.Keyword)
		c.add(s.Assign)
		c.ident(s.Name)
		c.expr(s.X)
	case *parser.TabularExpr:
		c.tabular(s)
	}
}

// parsePosPrefix reads "L:C: " at the start of s.
func parsePosPrefix(s string) (line, col int, ok bool) {
	i := 0
	for i < len(s) && isDig(s[i]) {
		line = line*10 + int(s[i]-'0')
		i++
	}
	if i == 0 || i >= len(s) || s[i] != ':' {
		return 0, 0, false
	}
	i++
	j := i
	for i < len(s) && isDig(s[i]) {
		col = col*10 + int(s[i]-'0')
		i++
	}
	if i == j || i >= len(s) || s[i] != ':' {
		return 0, 0, false
	}
	return line, col, true
}

// positionInSource: line L exists in src and column C is within it (tabs advance to multiples of 8).
func positionInSource(src string, line, col int) bool {
	l, c := 1, 1
	if line == 1 && col == 1 {
		return true
	}
	for i := 0; i < len(src); i++ {
		switch src[i] {
		case '\n':
			l++
			c = 1
		case '\t':
			c += 8 - (c-1)%8
		default:
			if src[i] < 0x80 || src[i] >= 0xC0 {
				c++
			}
		}
		if l == line && c == col {
			return true
		}
		if l > line {
			return false
		}
	}
	return false
}

// CheckFailure: on a failed parse every reported span is invalid-by-marker or
// inside the source, and line:column prefixes of the messages point into it.
func CheckFailure(src string) {
	stmts, err := parser.Parse(src)
	if err == nil {
		_, cerr := pql.Compile(src)
		if cerr != nil {
			checkMessage(src, cerr.Error(), "")
			verif.Cover("compile-error-message")
		}
		return
	}
	verif.Cover("rejected")
	c := &spanCollector{}
	for _, st := range stmts {
		c.statement(st)
	}
	for _, sp := range c.spans {
		if sp.IsValid() {
			verif.Assert(sp.End <= len(src), "a span reported for a failed parse lies outside the source")
		}
	}
	if len(c.spans) > 0 {
		verif.Cover("partial-tree")
	}
	checkMessage(src, err.Error(), "parse pipeline query language: ")
}

func checkMessage(src, msg, prefix string) {
	if len(msg) >= len(prefix) && msg[:len(prefix)] == prefix {
		msg = msg[len(prefix):]
	}
	start := 0
	for i := 0; i <= len(msg); i++ {
		if i == len(msg) || msg[i] == '\n' {
			line := msg[start:i]
			start = i + 1
			l, c, ok := parsePosPrefix(line)
			if ok {
				verif.Assert(positionInSource(src, l, c), "the line:column prefix of an error message does not point into the source")
				verif.Cover("position-checked")
			}
		}
	}
}

// H_C10err checks failed parses of every sequence of k tokens.
func H_C10err(k, vocab int) {
	CheckFailure(verif.Tokens(k, Vocab(vocab)))
}

// H_C10errseed checks failed parses of corrupted seed programs.
func H_C10errseed(s, n int) {
	vocab := Vocab(0)
	seed := seedByIndex(s)
	slots := make([]int, len(seed))
	for i, l := range seed {
		slots[i] = vocabIndex(vocab, l)
	}
	for c := 0; c < n; c++ {
		kind := verif.Concrete(verif.IntRange(0, 6))
		p := verif.Concrete(verif.IntRange(0, len(slots)))
		slots = corrupt(slots, kind, p)
	}
	CheckFailure(verif.TokenSeq(vocab, slots))
}

// TabPrograms are failing programs whose "%" gap is filled with arbitrary spaces, tabs and newlines.
var TabPrograms = []string{
	"foo%| where%)",
	"foo |%where x ==%)",
	"T%| take%1.5",
	"T | where%f(%",
	"T%| project a = not(%1, 2)",
	// multi-byte characters ahead of the reported position on its line: a byte-counted column falls off the line
	"T%| where s == '€€€€€€' and%not(1, 2)",
	"T%| where s == \"žluťoučký kůň €€\" and%)",
}

// H_C10tab: error positions under arbitrary space/tab/newline layout (tab stops every 8 columns).
func H_C10tab(p int) {
	tmpl := TabPrograms[p]
	src := ""
	for i := 0; i < len(tmpl); i++ {
		if tmpl[i] == '%' {
			src += verif.BytesIn(2, " \t\n")
		} else {
			src += string([]byte{tmpl[i]})
		}
	}
	CheckFailure(src)
}
