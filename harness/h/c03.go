package h

import (
	"verifh/verif"
)

var joinKinds = []string{"", "kind=inner ", "kind=innerunique ", "kind=leftouter "}
var joinConds = []string{
	"k",
	"$left.k == $right.k",
	"$left.a == $right.b",
	"$left.a == $right.b, k",
	"$left.a < $right.b",
	"k, $left.a > 0",
	"$right.b >= $left.a",
	"$right.b < $left.a, $right.k == $left.k",
	"$right.k != $left.a, $left.a <= $right.b",
}
var joinPre = []string{"", " | where a > 0", " | take 1", " | sort by a asc", " | extend c = a + 1", " | top 1 by a", " | sort by a asc nulls last | take 1", " | where a > 0 | top 1 by k asc", " | summarize by k", " | summarize a = max(a) by k", " | project k, a | sort by k"}
var joinRight = []string{"", " | where b > 0", " | take 1", " | sort by b", " | where isnull(b) | take 1"}
var joinPost = []string{"", " | where a > 0", " | count", " | project a, b", " | sort by b asc nulls last", " | take 1", " | summarize n = count() by a"}

func joinDB(r int, withC bool) DB {
	db := DB{
		"A": symbolicTable([]string{"k", "a"}, r),
		"B": symbolicTable([]string{"k", "b"}, r),
	}
	if withC {
		db["C"] = symbolicTable([]string{"k", "c"}, 1)
	}
	return db
}

// H_C03 checks one join with arbitrary kind, condition form, left prefix,
// right-hand pipeline and following operator (the first npre/nright/npost variants) on all tables of r rows.
func H_C03(r, npre, nright, npost int) {
	kind := joinKinds[verif.Concrete(verif.IntRange(0, len(joinKinds)))]
	cond := joinConds[verif.Concrete(verif.IntRange(0, len(joinConds)))]
	pre := joinPre[verif.Concrete(verif.IntRange(0, npre))]
	right := joinRight[verif.Concrete(verif.IntRange(0, nright))]
	post := joinPost[verif.Concrete(verif.IntRange(0, npost))]
	src := "A" + pre + " | join " + kind + "(B" + right + ") on " + cond + post
	verif.Obs("program", src)
	CheckPipeline(src, joinDB(r, false))
	verif.Cover("join-checked")
}

// H_C03pre: the join after every left prefix (limits and sorts before a join need two rows
// to show), kinds x the two plain condition forms, on all tables of r rows.
func H_C03pre(r int) {
	kind := joinKinds[verif.Concrete(verif.IntRange(0, len(joinKinds)))]
	cond := joinConds[verif.Concrete(verif.IntRange(0, 2))]
	pre := joinPre[verif.Concrete(verif.IntRange(0, len(joinPre)))]
	src := "A" + pre + " | join " + kind + "(B) on " + cond
	verif.Obs("program", src)
	CheckPipeline(src, joinDB(r, false))
	verif.Cover("join-checked")
}

// two joins: in sequence and nested in the right-hand side
var twoJoinShapes = []string{
	"A | join %K(B) on k | join %L(C) on $left.a == $right.c",
	"A | join %K(B | join %L(C) on k) on k",
	"A | where a > 0 | join %K(B | where b > 0 | join %L(C) on $left.b == $right.c | take 1) on k | count",
	"A | join %K(B) on k | where b > 0 | join %L(C | take 1) on $left.b == $right.c | project a, b, c",
	"A | where a > 0 | join %K(B | join %L(C) on k) on k",
	"A | extend d = a + 1 | join %K(B | join %L(C | where c > 0) on $left.b == $right.c | where b > 0) on k | count",
	// three joins: in sequence, nested three deep, mixed
	"A | join %K(B) on k | join %L(C) on $left.a == $right.c | join %M(D) on $left.b == $right.d",
	"A | join %K(B | join %L(C | join %M(D) on $left.c == $right.d) on $left.b == $right.c) on k",
	"A | join %K(B | join %L(C) on $left.b == $right.c) on k | where a > 0 | join %M(D | take 1) on $left.a == $right.d | count",
}

func replaceAll(s, old, new string) string {
	out := ""
	for i := 0; i < len(s); {
		if i+len(old) <= len(s) && s[i:i+len(old)] == old {
			out += new
			i += len(old)
		} else {
			out += string([]byte{s[i]})
			i++
		}
	}
	return out
}

// H_C03two checks programs with two and three joins (sequential and nested) for all kind combinations.
func H_C03two(shape, r int) {
	k1 := joinKinds[verif.Concrete(verif.IntRange(0, len(joinKinds)))]
	k2 := joinKinds[verif.Concrete(verif.IntRange(0, len(joinKinds)))]
	src := replaceAll(replaceAll(twoJoinShapes[shape], "%K", k1), "%L", k2)
	db := joinDB(r, true)
	if shape >= 6 {
		k3 := joinKinds[verif.Concrete(verif.IntRange(0, len(joinKinds)))]
		src = replaceAll(src, "%M", k3)
		db["D"] = symbolicTable([]string{"k", "d"}, 1)
	}
	verif.Obs("program", src)
	CheckPipeline(src, db)
	verif.Cover("join-checked")
}
