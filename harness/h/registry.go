// Package h holds the harness functions (one family per property) and the
// oracles they use. Everything here is ordinary Go: the engine executes it
// symbolically, cmd/replay executes it natively.
package h

// Registry maps harness names to functions taking the integer bounds.
var Registry = map[string]func(args []int64){
	"H_Smoke":      func(a []int64) { H_Smoke(int(a[0])) },
	"H_C09":        func(a []int64) { H_C09(int(a[0]), int(a[1])) },
	"H_C14seq":     func(a []int64) { H_C14seq(int(a[0]), int(a[1])) },
	"H_C14par":     func(a []int64) { H_C14par(int(a[0]), int(a[1]), int(a[2])) },
	"H_C14parse":   func(a []int64) { H_C14parse(int(a[0]), int(a[1])) },
	"H_C15":        func(a []int64) { H_C15(int(a[0]), int(a[1])) },
	"H_C12":        func(a []int64) { H_C12(int(a[0]), int(a[1])) },
	"H_C13a":       func(a []int64) { H_C13a(int(a[0]), int(a[1])) },
	"H_C12tok":     func(a []int64) { H_C12tok(int(a[0]), int(a[1])) },
	"H_C13atok":    func(a []int64) { H_C13atok(int(a[0]), int(a[1])) },
	"H_Probe":      func(a []int64) { H_Probe(int(a[0])) },
	"H_C08":        func(a []int64) { H_C08(int(a[0]), int(a[1])) },
	"H_C08seed":    func(a []int64) { H_C08seed(int(a[0]), int(a[1])) },
	"H_C13b":       func(a []int64) { H_C13b(int(a[0]), int(a[1])) },
	"H_C13seed":    func(a []int64) { H_C13seed(int(a[0]), int(a[1])) },
	"H_C01":        func(a []int64) { H_C01(int(a[0]), int(a[1])) },
	"H_C06":        func(a []int64) { H_C06(int(a[0])) },
	"H_C06ops":     func(a []int64) { H_C06ops(int(a[0])) },
	"H_C02":        func(a []int64) { H_C02(int(a[0]), int(a[1])) },
	"H_C03":        func(a []int64) { H_C03(int(a[0]), int(a[1]), int(a[2]), int(a[3])) },
	"H_C03two":     func(a []int64) { H_C03two(int(a[0]), int(a[1])) },
	"H_C04":        func(a []int64) { H_C04(int(a[0]), int(a[1])) },
	"H_C05":        func(a []int64) { H_C05(int(a[0]), int(a[1])) },
	"H_C05seed":    func(a []int64) { H_C05seed(int(a[0]), int(a[1])) },
	"H_C05names":   func(a []int64) { H_C05names(int(a[0])) },
	"H_C07":        func(a []int64) { H_C07(int(a[0]), int(a[1])) },
	"H_C07ladder":  func(a []int64) { H_C07ladder(int(a[0]), int(a[1])) },
	"H_C07seed":    func(a []int64) { H_C07seed(int(a[0]), int(a[1])) },
	"H_C07layout":  func(a []int64) { H_C07layout(int(a[0])) },
	"H_C10":        func(a []int64) { H_C10(int(a[0]), int(a[1])) },
	"H_C10err":     func(a []int64) { H_C10err(int(a[0]), int(a[1])) },
	"H_C10errseed": func(a []int64) { H_C10errseed(int(a[0]), int(a[1])) },
	"H_C10seed":    func(a []int64) { H_C10seed(int(a[0]), int(a[1])) },
	"H_C11":        func(a []int64) { H_C11(int(a[0]), int(a[1])) },
	"H_C11seed":    func(a []int64) { H_C11seed(int(a[0]), int(a[1])) },
}
