package h

import (
	"github.com/runreveal/pql"
	"github.com/runreveal/pql/parser"

	"verifh/verif"
)

// ExprShapes are expression skeletons; "?" is an arbitrary binary operator.
var ExprShapes = []string{
	// 0-5: ladders and explicit grouping
	"a ? b",
	"a ? b ? U",
	"( a ? b ) ? U",
	"a ? ( b ? U )",
	"( ( a ) )",
	"( ( a ? b ) ) ? ( U )",
	// 6-12: signs and indexing
	"- a ? b",
	"- ( a ? b )",
	"a ? - 1",
	"- a [ 1 ]",
	"( - a ) [ 1 ]",
	"( a ? b ) [ 1 ]",
	"a [ b ? 1 ]",
	// 13-19: in
	"a in ( 1 , b )",
	"a ? b in ( 1 , 2.5 )",
	"( a in ( 1 , 2.5 ) ) ? b",
	"a in ( 1 , b ? 2.5 )",
	"not ( a ) in ( 1 , 2.5 )",
	"- a in ( 1 )",
	"a in ( 1 ) ? b in ( 2.5 )",
	// 20-27: built-ins as operands
	"not ( a ) ? b",
	"a ? not ( b )",
	"not ( a ? b )",
	"isnull ( a ) ? b",
	"a ? isnotnull ( b )",
	"isnull ( a ? b )",
	"iff ( a ? b , U , 1 ) ? U",
	"a ? iif ( b , 1 , 's' )",
	// 28-35
	"strcat ( a , b ? U ) ? 's'",
	"a ? strcat ( b , 's' , U )",
	"tolower ( a ) ? toupper ( b )",
	"countif ( a ? b ) ? 1",
	"now ( ) ? count ( )",
	"f ( ) ? f ( a , b ? 1 , 's' )",
	"f ( f ( a ) ? b )",
	"a . b ? `q` . U",
	// 36-41: constants, literals, odd operands
	"true ? null",
	"false ? 's'",
	"\"d\" ? 2.5",
	"+ a ? - 2.5",
	"- ( - a )",
	"- ( + 1 )",
	// 42-45: three operators
	"a ? b ? U ? 1",
	"a ? ( b ? U ) ? 1",
	"( a ? b ) ? ( U ? 1 )",
	"- a ? b [ 1 ] ? f ( U )",
	// 46-48: in after a ladder
	"a ? b ? U in ( 1 , 2.5 )",
	"a ? b in ( 1 ) ? U in ( 2.5 )",
	"a ? ( b ? U in ( 1 ) )",
	// 49-53: join conditions (position 10 only): one-sided and same-sided comparisons, also under not()
	"$left . a ? $left . b",
	"not ( $left . a ? $left . b )",
	"not ( $right . a ? 1 )",
	"$left . a ? 1 and $left . b ? $left . a",
	"a , not ( $right . b ? $right . a )",
	// 54-65: repeated parentheses and signs around signed, indexed, in and not operands
	"- ( ( - a ) )",
	"( ( - a ) ) [ 1 ]",
	"- ( ( ( a ? b ) ) )",
	"not ( ( ( a ) ) ) in ( 1 )",
	"( ( a in ( 1 ) ) ) ? b",
	"- - a",
	"+ ( ( + a ) ) ? - ( ( - 1 ) )",
	"a ? ( ( - b ) )",
	"( ( a ) ) [ ( ( 1 ) ) ]",
	"- ( ( a [ 1 ] ) )",
	"( ( ( - 1 ) ) ) [ 1 ]",
	"not ( ( not ( ( a ) ) ) ) ? ( ( b ) )",
	// 66-69: conditionals whose branches are constants, nested conditionals
	"iff ( a , true , false ) ? b",
	"iif ( a ? b , false , true )",
	"iff ( a , 1 , iff ( b , 2.5 , 's' ) ) ? U",
	"iff ( isnull ( a ) , null , a ) ? iff ( b , true , null )",
}

func isBinaryOpKind(k parser.TokenKind) bool {
	return k == parser.TokenOr || k == parser.TokenAnd || isCmp(k) || k == parser.TokenPlus || k == parser.TokenMinus ||
		k == parser.TokenStar || k == parser.TokenSlash || k == parser.TokenMod
}

func splitWords(s string) []string {
	var out []string
	cur := ""
	for i := 0; i < len(s); i++ {
		if s[i] == ' ' {
			if cur != "" {
				out = append(out, cur)
				cur = ""
			}
		} else {
			cur += string([]byte{s[i]})
		}
	}
	if cur != "" {
		out = append(out, cur)
	}
	return out
}

// Positions are the program contexts an expression can occur in.
//
//	0 where   1 project x=E   2 extend x=E   3 extend E   4 summarize x=E by b   5 summarize count() by E
//	6 sort by E   7 take E   8 top 1 by E   9 top E by a   10 join on E   11 let v=E; where v
var positionPre = []string{
	"T | where", "T | project a =", "T | extend a =", "T | extend", "T | summarize a =", "T | summarize count ( ) by",
	"T | sort by", "T | take", "T | top 1 by", "T | top", "T | join ( U ) on", "let f =",
}
var positionPost = []string{
	"", "", "", "", "by b", "", "", "", "", "by a", "", "; T | where f",
}

const NumPositions = 12

// pqlExprAt returns the expression node at the position.
func pqlExprAt(stmts []parser.Statement, pos int) parser.Expr {
	if pos == 11 {
		if len(stmts) < 1 {
			return nil
		}
		if l, ok := stmts[0].(*parser.LetStatement); ok {
			return l.X
		}
		return nil
	}
	if len(stmts) != 1 {
		return nil
	}
	t, ok := stmts[0].(*parser.TabularExpr)
	if !ok || len(t.Operators) != 1 {
		return nil
	}
	switch op := t.Operators[0].(type) {
	case *parser.WhereOperator:
		return op.Predicate
	case *parser.ProjectOperator:
		return op.Cols[0].X
	case *parser.ExtendOperator:
		return op.Cols[0].X
	case *parser.SummarizeOperator:
		if pos == 4 {
			return op.Cols[0].X
		}
		return op.GroupBy[0].X
	case *parser.SortOperator:
		return op.Terms[0].X
	case *parser.TakeOperator:
		return op.RowCount
	case *parser.TopOperator:
		if pos == 8 {
			return op.Col.X
		}
		return op.RowCount
	case *parser.JoinOperator:
		if len(op.Conditions) == 1 {
			return op.Conditions[0]
		}
	}
	return nil
}

// sqlExprAt returns the SQL expression at the position.
func sqlExprAt(st *SQLStmt, pos int) *SQLNode {
	sel := st.Sel
	switch pos {
	case 0, 11:
		return sel.Where
	case 1:
		if len(sel.Items) == 1 {
			return sel.Items[0].X
		}
	case 2, 3:
		if len(sel.Items) == 2 {
			return sel.Items[1].X
		}
	case 4:
		if len(sel.Items) == 2 {
			return sel.Items[1].X
		}
	case 5:
		if len(sel.Items) == 2 && len(sel.GroupBy) == 1 {
			return sel.Items[0].X
		}
	case 6, 8:
		if len(sel.OrderBy) == 1 {
			return sel.OrderBy[0].X
		}
	case 7, 9:
		return sel.Limit
	case 10:
		return sel.On
	}
	return nil
}

// CheckMeaning compiles src and asserts that the SQL expression at the
// position denotes, for every row, the value of the PQL expression there.
func CheckMeaning(src string, pos int) {
	stmts, perr := parser.Parse(src)
	if perr != nil {
		verif.Cover("not-parsed")
		return
	}
	x := pqlExprAt(stmts, pos)
	if x == nil {
		verif.Cover("other-shape")
		return
	}
	sql, err := pql.Compile(src)
	if err != nil {
		verif.Cover("compile-error") // arity and scoping rules: C13's subject
		return
	}
	verif.Cover("compiled")
	toks := SQLLex(sql, ClickHouse)
	st, msg := SQLParseStatement(toks)
	verif.Assert(msg == "", "the emitted SQL does not parse: "+msg)
	if st == nil {
		return
	}
	y := sqlExprAt(st, pos)
	verif.Assert(y != nil, "the emitted SQL has no expression where the PQL program has one")
	if y == nil {
		return
	}
	want := PQLVal(x, nil)
	got := SQLVal(y, nil)
	if pos == 10 {
		// a join condition matters through its truth only (NULL and FALSE both drop the pair)
		verif.AssertValid(verif.FIff(verif.FTruth(want), verif.FTruth(got)), "the SQL join condition is not true for the same rows as the PQL condition")
	} else {
		verif.AssertValid(verif.FEq(want, got), "the SQL expression does not compute the value of the PQL expression for every row (grouping or rewrite differs)")
	}
	if pos == 5 && len(st.Sel.GroupBy) == 1 {
		verif.AssertValid(verif.FEq(want, SQLVal(st.Sel.GroupBy[0], nil)), "the GROUP BY expression differs from the group key")
	}
	checkNullFree(x, y)
	verif.Cover("meaning-checked")
}

// checkNullFree: the top-level == / != never yields NULL.
func checkNullFree(x parser.Expr, y *SQLNode) {
	for {
		p, ok := x.(*parser.ParenExpr)
		if !ok {
			break
		}
		x = p.X
	}
	if b, ok := x.(*parser.BinaryExpr); ok && (b.Op == parser.TokenEq || b.Op == parser.TokenNE) {
		verif.AssertValid(verif.FNot(verif.FIsNull(SQLVal(y, nil))), "== or != can yield NULL in the emitted SQL")
		verif.Cover("null-free-checked")
	}
}

// H_C01 checks expression shape s at position pos with every "?" an arbitrary binary operator.
func H_C01(s, pos int) {
	vocab := Vocab(0)
	var slots []int
	var ops []int
	words := append(splitWords(positionPre[pos]), splitWords(ExprShapes[s])...)
	words = append(words, splitWords(positionPost[pos])...)
	for _, w := range words {
		if pos == 11 {
			// a let value is a closed expression: columns become literals
			switch w {
			case "a":
				w = "1"
			case "b":
				w = "2.5"
			case "U":
				w = "'s'"
			}
		}
		if w == "?" {
			ops = append(ops, len(slots))
			slots = append(slots, -1)
		} else {
			slots = append(slots, vocabIndex(vocab, w))
		}
	}
	src := verif.TokenSeq(vocab, slots)
	toks := parser.Scan(src)
	for _, p := range ops {
		verif.Assume(isBinaryOpKind(toks[p].Kind))
	}
	CheckMeaning(src, pos)
}
