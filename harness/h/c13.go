package h

import (
	"github.com/runreveal/pql"
	"github.com/runreveal/pql/parser"

	"verifh/verif"
)

// Rule predicates of C13, evaluated on the real parser's tree through exported
// fields only (independent of the compiler and of parser.Walk).

const (
	modeDefault = iota
	modeJoin
	modeLet
)

type ruleCtx struct {
	scope map[string]bool
	mode  int
	bad   bool
}

func builtinArityOK(name string, n int) bool {
	switch name {
	case "not", "isnull", "isnotnull", "tolower", "toupper", "countif":
		return n == 1
	case "now", "count":
		return n == 0
	case "iff", "iif":
		return n == 3
	case "strcat":
		return n >= 1
	}
	return true
}

func (c *ruleCtx) expr(x parser.Expr) {
	switch x := x.(type) {
	case nil:
	case *parser.ParenExpr:
		c.expr(x.X)
	case *parser.QualifiedIdent:
		if len(x.Parts) == 1 {
			p := x.Parts[0]
			if !p.Quoted {
				if c.scope[p.Name] {
					return // substituted
				}
				if p.Name == "true" || p.Name == "false" || p.Name == "null" {
					return
				}
				if c.mode == modeLet {
					c.bad = true // R2: unknown identifier in a let value
					return
				}
			} else if c.mode == modeLet {
				c.bad = true // R2: quoted identifier
				return
			}
		} else if c.mode == modeLet {
			c.bad = true // R2: qualified identifier
			return
		}
		for _, p := range x.Parts {
			if !p.Quoted && (p.Name == "$left" || p.Name == "$right") && c.mode != modeJoin {
				c.bad = true // R4
			}
		}
	case *parser.BasicLit:
	case *parser.UnaryExpr:
		c.expr(x.X)
	case *parser.BinaryExpr:
		c.expr(x.X)
		c.expr(x.Y)
	case *parser.InExpr:
		c.expr(x.X)
		for _, v := range x.Vals {
			c.expr(v)
		}
	case *parser.IndexExpr:
		c.expr(x.X)
		c.expr(x.Index)
	case *parser.CallExpr:
		if !builtinArityOK(x.Func.Name, len(x.Args)) {
			c.bad = true // R3
		}
		for _, a := range x.Args {
			c.expr(a)
		}
	}
}

// rowCount: R6, a literal row count must be an integer.
func (c *ruleCtx) rowCount(x parser.Expr) {
	if lit, ok := x.(*parser.BasicLit); ok {
		if lit.Kind != parser.TokenNumber {
			c.bad = true
			return
		}
		for i := 0; i < len(lit.Value); i++ {
			if lit.Value[i] == '.' || lit.Value[i] == 'e' || lit.Value[i] == 'E' {
				c.bad = true
			}
		}
	}
}

func (c *ruleCtx) sortTerm(t *parser.SortTerm) {
	if t != nil {
		c.expr(t.X)
	}
}

func (c *ruleCtx) tabular(x *parser.TabularExpr) {
	for _, op := range x.Operators {
		switch op := op.(type) {
		case *parser.WhereOperator:
			c.expr(op.Predicate)
		case *parser.SortOperator:
			for _, t := range op.Terms {
				c.sortTerm(t)
			}
		case *parser.TakeOperator:
			c.rowCount(op.RowCount)
			c.expr(op.RowCount)
		case *parser.TopOperator:
			c.rowCount(op.RowCount)
			c.expr(op.RowCount)
			c.sortTerm(op.Col)
		case *parser.ProjectOperator:
			for _, col := range op.Cols {
				if col.X != nil {
					c.expr(col.X)
				} else {
					c.expr(col.Name.AsQualified())
				}
			}
		case *parser.ExtendOperator:
			for _, col := range op.Cols {
				c.expr(col.X)
			}
		case *parser.SummarizeOperator:
			for _, col := range op.Cols {
				c.expr(col.X)
			}
			for _, col := range op.GroupBy {
				c.expr(col.X)
			}
		case *parser.JoinOperator:
			if op.Flavor != nil && op.Flavor.Name != "inner" && op.Flavor.Name != "innerunique" && op.Flavor.Name != "leftouter" {
				c.bad = true // R5: unknown join kind
			}
			c.tabular(op.Right)
			jc := &ruleCtx{scope: c.scope, mode: modeJoin}
			for _, cond := range op.Conditions {
				jc.expr(cond)
			}
			if jc.bad {
				c.bad = true
			}
		}
	}
}

// BreaksRule reports whether a successfully parsed program breaks one of the
// documented rules R1-R6 given the parameter names (R5/R6 are normally parse
// failures; they are also evaluated on the tree so that a parser that lets them
// through is noticed).
func BreaksRule(stmts []parser.Statement, params map[string]string) bool {
	scope := map[string]bool{}
	for k := range params {
		scope[k] = true
	}
	var query *parser.TabularExpr
	for _, st := range stmts {
		switch st := st.(type) {
		case *parser.TabularExpr:
			if query != nil {
				return true // R1: more than one tabular statement
			}
			query = st
		case *parser.LetStatement:
			if query != nil {
				continue // lets after the query have no effect
			}
			c := &ruleCtx{scope: scope, mode: modeLet}
			c.expr(st.X)
			if c.bad {
				return true
			}
			scope[st.Name.Name] = true
		}
	}
	if query == nil {
		return true // R1: no tabular statement
	}
	c := &ruleCtx{scope: scope, mode: modeDefault}
	c.tabular(query)
	return c.bad
}

// CheckExactlyWhen asserts that Compile fails exactly when the source does not
// parse or breaks a documented rule.
func CheckExactlyWhen(src string) {
	stmts, perr := parser.Parse(src)
	sql, cerr := pql.Compile(src)
	verif.Assert((sql != "" && cerr == nil) || (sql == "" && cerr != nil), "Compile returned neither or both of SQL and error")
	if perr != nil {
		verif.Cover("rejected")
		verif.Assert(cerr != nil, "Compile succeeded on a source that does not parse")
		return
	}
	verif.Cover("accepted")
	want := BreaksRule(stmts, nil)
	if want {
		verif.Cover("breaks-rule")
		verif.Assert(cerr != nil, "Compile accepted a program that breaks a documented rule")
	} else {
		verif.Cover("keeps-rules")
		verif.Assert(cerr == nil, "Compile rejected a program of the grammar that breaks no documented rule")
	}
}

// H_C13b checks "fails exactly when" on every sequence of k tokens.
func H_C13b(k, vocab int) {
	CheckExactlyWhen(verif.Tokens(k, Vocab(vocab)))
}

// Seeds13 are programs with calls, join aliases and let bindings at depth.
var Seeds13 = [][]string{
	{"T", "|", "where", "not", "(", "isnull", "(", "a", ")", ")", "and", "f", "(", "iff", "(", "a", ",", "1", ",", "b", ")", ")"},
	{"let", "a", "=", "strcat", "(", "'s'", ",", "tolower", "(", "'s'", ")", ")", ";", "T", "|", "project", "b", "=", "a"},
	{"let", "a", "=", "1", ";", "let", "b", "=", "a", "+", "1", ";", "T", "|", "take", "b"},
	{"T", "|", "join", "(", "U", "|", "where", "now", "(", ")", ">", "a", ")", "on", "$left", ".", "a", "==", "$right", ".", "b", "|", "count"},
	{"T", "|", "summarize", "a", "=", "countif", "(", "b", ">", "1", ")", ",", "count", "(", ")", "by", "toupper", "(", "b", ")"},
	{"T", "|", "sort", "by", "f", "(", "a", ")", "[", "1", "]", "desc", "|", "top", "1", "by", "iif", "(", "a", ",", "b", ",", "1", ")"},
	{"T", "|", "extend", "a", "=", "b", "in", "(", "1", ",", "f", "(", "2.5", ")", ")", ";", "let", "b", "=", "a"},
	{"T", "|", "where", "a", ";", "U"},
	{"T", "|", "where", "not", "(", "isnull", "(", "a", "[", "'s'", "]", ")", ")", "and", "f", "(", "f", "(", "b", "[", "1", "]", ")", ",", "1", ")"},
	{"T", "|", "join", "(", "U", "|", "where", "f", "(", "a", "[", "1", "]", ")", ">", "1", "|", "project", "b", ")", "on", "b", "|", "count"},
	{"T", "|", "sort", "by", "not", "(", "a", ")", ",", "strcat", "(", "b", ")", "desc", "|", "count"},
	{"T", "|", "where", "(", "(", "a", ">", "1", ")", ")", "|", "project", "b", "=", "(", "(", "a", ")", ")", "|", "top", "(", "(", "1", ")", ")", "by", "(", "(", "b", ")", ")"},
	{"T", "|", "take", "1", "|", "top", "1", "by", "a", "asc", "nulls", "last", "|", "limit", "1"},
	{"T", ";", "let", "a", "=", "1", ";", "U"},
	{"let", "a", "=", "1", ";", "T", "|", "take", "a", ";", "let", "b", "=", "a", ";", "U", "|", "count"},
	{"T", "|", "take", "2E3", "|", "top", "2E3", "by", "a"},
	// a built-in directly under a negation, bare and parenthesised (one insertion after a trailing comma makes the surplus argument)
	{"T", "|", "where", "not", "(", "not", "(", "a", ",", ")", ")", "and", "not", "(", "(", "not", "(", "b", ",", ")", ")", ")", "|", "project", "b", "=", "not", "(", "isnull", "(", "a", ",", ")", ")"},
}

// H_C13seed checks "fails exactly when" on seed programs with n arbitrary corruptions.
func H_C13seed(s, n int) {
	vocab := Vocab(0)
	var seed []string
	if s < len(Seeds13) {
		seed = Seeds13[s]
	} else {
		seed = Seeds[s-len(Seeds13)]
	}
	slots := make([]int, len(seed))
	for i, l := range seed {
		slots[i] = vocabIndex(vocab, l)
	}
	for c := 0; c < n; c++ {
		kind := verif.Concrete(verif.IntRange(0, 6))
		p := verif.Concrete(verif.IntRange(0, len(slots)))
		slots = corrupt(slots, kind, p)
	}
	CheckExactlyWhen(verif.TokenSeq(vocab, slots))
}
