package h

// Vocabularies of the token-slot input model (B). Every lexeme the parser or
// compiler compares against is present, so that a path which does not
// distinguish two lexemes covers both.

var wordsOperators = []string{"let", "where", "filter", "count", "sort", "order", "take", "limit", "top", "project", "extend", "summarize", "join", "as", "render"}
var wordsModifiers = []string{"asc", "desc", "nulls", "first", "last", "kind", "inner", "innerunique", "leftouter", "on", "with"}
var wordsFunctions = []string{"not", "isnull", "isnotnull", "iff", "iif", "strcat", "tolower", "toupper", "now", "countif", "f"}
var wordsConstants = []string{"true", "false", "null", "$left", "$right"}
var wordsNames = []string{"a", "b", "T", "U"}
var lexKeywords = []string{"and", "or", "in", "by"}
var lexLiterals = []string{"1", "2.5", "2E3", "'s'", "\"d\"", "`q`"}
var lexPunct = []string{"|", ".", ",", "+", "-", "*", "/", "%", "=", "==", "!=", "<", "<=", ">", ">=", "=~", "!~", "(", ")", "[", "]", ";"}
var lexErrors = []string{"!", "'u", "0x"}

func cat(lists ...[]string) []string {
	var r []string
	for _, l := range lists {
		r = append(r, l...)
	}
	return r
}

// Vocab returns vocabulary number id.
//
//	0: full (every word, literal, punctuation and error lexeme)
//	1: parser-level without error lexemes
//	2: compact: one representative per class the parser distinguishes, plus all operator words
//	4: small: deep sequences (k >= 6)
//	3: expression-level: operands, operators, brackets, function names
func Vocab(id int) []string {
	switch id {
	case 0:
		return cat(wordsNames, wordsOperators, wordsModifiers, wordsFunctions, wordsConstants, lexKeywords, lexLiterals, lexPunct, lexErrors)
	case 1:
		return cat(wordsNames, wordsOperators, wordsModifiers, wordsFunctions, wordsConstants, lexKeywords, lexLiterals, lexPunct)
	case 2:
		return cat([]string{"a", "T"}, wordsOperators, wordsModifiers, []string{"f", "not"}, []string{"true", "$left"}, lexKeywords, []string{"1", "2.5", "'s'", "`q`"}, lexPunct, []string{"0x"})
	case 4:
		return []string{"a", "T", "let", "where", "take", "count", "project", "extend", "summarize", "join", "as", "sort", "top", "render", "by", "and", "in", "f", "not",
			"1", "'s'", "|", "(", ")", "[", "]", ",", "=", "==", "+", "-", ".", ";"}
	case 5:
		// compile-level: few plain names (among them the generated subquery names), every operator word
		return cat([]string{"a", "T", "__subquery0", "__subquery1", "__subquery0_", "__subquery1_"}, wordsOperators, []string{"asc", "nulls", "first", "kind", "inner", "leftouter", "on", "with"},
			[]string{"f", "not", "count", "true", "$left"}, lexKeywords, []string{"1", "2.5", "'s'", "`q`"}, lexPunct)
	case 3:
		return cat([]string{"a", "b"}, wordsFunctions, wordsConstants, lexKeywords, lexLiterals,
			[]string{".", ",", "+", "-", "*", "/", "%", "==", "!=", "<", "<=", ">", ">=", "=~", "!~", "(", ")", "[", "]"})
	}
	panic("unknown vocabulary")
}
