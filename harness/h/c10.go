package h

import (
	"github.com/runreveal/pql/parser"

	"verifh/verif"
)

// CheckSpans asserts that every position recorded in a successfully parsed
// tree designates exactly the source tokens it describes.
func CheckSpans(srcLen int, toks []parser.Token, stmts []parser.Statement) {
	si := 0
	for _, piece := range SplitTokens(toks) {
		if len(piece) == 0 {
			continue
		}
		if si >= len(stmts) {
			return // C08's subject
		}
		exp, nodes, bad := Reprint(stmts[si])
		si++
		if bad != "" {
			continue // C08's subject
		}
		msg, at := MatchStatement(piece, exp)
		if msg != "" {
			continue // C08's subject
		}
		// spans recorded for single lexemes
		for j, e := range exp {
			if !e.HasSpan {
				continue
			}
			t := piece[at[j]]
			if e.Partial {
				// the span runs from this token to the end of the next one (sort...by, nulls first|last)
				u := piece[at[j+1]]
				verif.Assert(e.Span.Start == t.Span.Start && e.Span.End == u.Span.End, "a two-word keyword span is not the extent of its two lexemes")
			} else {
				verif.Assert(e.Span.Start == t.Span.Start && e.Span.End == t.Span.End, "a recorded span is not the span of the lexeme it describes ("+e.Label+")")
			}
		}
		// node extents
		for _, n := range nodes {
			sp := n.Node.Span()
			first, last := piece[at[n.First]], piece[at[n.Last]]
			verif.Assert(sp.Start == first.Span.Start && sp.End == last.Span.End, "a node's span is not the extent from its first to its last token")
			verif.Assert(sp.Start >= 0 && sp.End <= srcLen, "a node's span lies outside the source")
			if n.Parent >= 0 {
				ps := nodes[n.Parent].Node.Span()
				verif.Assert(ps.Start <= sp.Start && sp.End <= ps.End, "a node's span is not contained in its parent's span")
			}
		}
		verif.Cover("spans-checked")
	}
}

// H_C10 checks recorded positions on every accepted sequence of k tokens.
func H_C10(k, vocab int) {
	src := verif.Tokens(k, Vocab(vocab))
	stmts, err := parser.Parse(src)
	if err != nil {
		verif.Cover("rejected")
		return
	}
	verif.Cover("accepted")
	CheckSpans(len(src), parser.Scan(src), stmts)
}

// H_C10seed checks recorded positions on the seed programs and their accepted corruptions.
func H_C10seed(s, n int) {
	vocab := Vocab(0)
	seed := Seeds[s]
	slots := make([]int, len(seed))
	for i, l := range seed {
		slots[i] = vocabIndex(vocab, l)
	}
	for c := 0; c < n; c++ {
		kind := verif.Concrete(verif.IntRange(0, 6))
		p := verif.Concrete(verif.IntRange(0, len(slots)))
		slots = corrupt(slots, kind, p)
	}
	src := verif.TokenSeq(vocab, slots)
	stmts, err := parser.Parse(src)
	if err != nil {
		verif.Cover("rejected")
		return
	}
	verif.Cover("accepted")
	CheckSpans(len(src), parser.Scan(src), stmts)
}
