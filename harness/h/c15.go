package h

import (
	"github.com/runreveal/pql/parser"

	"verifh/verif"
)

// H_C15 checks statement splitting against the lexer on n arbitrary bytes.
func H_C15(n, alpha int) {
	src := GenBytes(n, alpha)
	parts := parser.SplitStatements(src)
	toks := parser.Scan(src)
	verif.Obs("tokens", DumpTokens(toks))

	// joining the pieces with ';' restores the source byte for byte
	joined := ""
	for i, p := range parts {
		if i > 0 {
			joined += ";"
		}
		joined += p
	}
	verif.Assert(joined == src, "joining the pieces with ';' does not restore the source")

	// one more piece than semicolon tokens
	nsemi := 0
	for _, t := range toks {
		if t.Kind == parser.TokenSemi {
			nsemi++
		}
	}
	verif.Assert(len(parts) == nsemi+1, "number of pieces is not one more than the number of semicolon tokens")
	if nsemi > 0 {
		verif.Cover("has-semicolon-token")
	}

	// the cuts are exactly the semicolons of the token language (not those inside strings, names, comments)
	want, stop := RefScan(src)
	if stop < 0 {
		wsemi := 0
		for _, t := range want {
			if t.Kind == parser.TokenSemi {
				wsemi++
			}
		}
		verif.Assert(len(parts) == wsemi+1, "source is not cut exactly at the semicolon tokens of the language")
		if wsemi < countByte(src, ';') {
			verif.Cover("semicolon-inside-token-or-comment")
		}
	}

	// each piece scanned on its own yields the tokens it had inside the whole source
	offset := 0
	ti := 0
	nonEmpty := 0
	for pi, p := range parts {
		pt := parser.Scan(p)
		if len(pt) > 0 {
			nonEmpty++
		}
		for _, t := range pt {
			verif.Assert(t.Kind != parser.TokenSemi, "a piece contains a semicolon token")
			verif.Assert(ti < len(toks), "a piece scans to more tokens than it had in context")
			if ti < len(toks) {
				w := toks[ti]
				verif.Assert(t.Kind == w.Kind && t.Span.Start+offset == w.Span.Start && t.Span.End+offset == w.Span.End,
					"a piece scanned alone yields a different token than in context")
				if t.Kind != parser.TokenError {
					verif.Assert(t.Value == w.Value, "a piece scanned alone yields a different token value than in context")
				}
			}
			ti++
		}
		if pi < len(parts)-1 {
			verif.Assert(ti < len(toks) && toks[ti].Kind == parser.TokenSemi && toks[ti].Span.Start == offset+len(p),
				"a cut is not at a semicolon token")
			ti++
		}
		offset += len(p) + 1
	}
	verif.Assert(ti == len(toks), "tokens of the source are missing from the pieces")

	// Parse reports statements in the same order and number as the non-empty pieces
	stmts, err := parser.Parse(src)
	// (also when some statement is malformed: what Parse returns for the whole source is
	// what it returns for the pieces one by one)
	fromPieces := 0
	for _, p := range parts {
		ps, _ := parser.Parse(p)
		fromPieces += len(ps)
	}
	verif.Assert(len(stmts) == fromPieces, "Parse of the whole source reports a different number of statements than parsing its pieces one by one")
	if err == nil {
		verif.Cover("parsed")
		verif.Assert(len(stmts) == nonEmpty, "Parse statement count differs from the number of non-empty pieces")
		// order: statement k lies inside the k-th non-empty piece
		offset = 0
		k := 0
		for _, p := range parts {
			if len(parser.Scan(p)) > 0 && k < len(stmts) {
				sp := stmts[k].Span()
				verif.Assert(sp.Start >= offset && sp.End <= offset+len(p), "Parse statement does not lie inside its piece")
				k++
			}
			offset += len(p) + 1
		}
		if len(stmts) > 1 {
			verif.Cover("two-statements")
		}
	}
}

func countByte(s string, c byte) int {
	n := 0
	for i := 0; i < len(s); i++ {
		if s[i] == c {
			n++
		}
	}
	return n
}

// H_C15tok checks the agreement of Parse with the semicolon tokens on every sequence of k tokens.
func H_C15tok(k, vocab int) {
	src := verif.Tokens(k, Vocab(vocab))
	toks := parser.Scan(src)
	parts := parser.SplitStatements(src)
	nsemi, nonEmpty, cur := 0, 0, 0
	for _, t := range toks {
		if t.Kind == parser.TokenSemi {
			nsemi++
			if cur > 0 {
				nonEmpty++
			}
			cur = 0
		} else {
			cur++
		}
	}
	if cur > 0 {
		nonEmpty++
	}
	verif.Assert(len(parts) == nsemi+1, "number of pieces is not one more than the number of semicolon tokens")
	stmts, err := parser.Parse(src)
	if err == nil {
		verif.Cover("parsed")
		verif.Assert(len(stmts) == nonEmpty, "Parse statement count differs from the number of non-empty pieces")
	} else {
		verif.Cover("rejected")
		// a failed parse still reports at most one statement per non-empty piece
		verif.Assert(len(stmts) <= nonEmpty, "Parse reports more statements than there are non-empty pieces")
	}
	if nsemi > 0 {
		verif.Cover("has-semicolon-token")
	}
}
