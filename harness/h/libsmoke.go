package h

// H_Lib exercises library functions a maintainer's refactoring of pql might
// start using, on symbolic inputs; the engine's result is compared with the
// native result by replay validation (observations). Not a property check:
// `check SELFLIB quick` is the engine's own regression test.

import (
	"bytes"
	"errors"
	"fmt"
	"slices"
	"sort"
	"strconv"
	"strings"
	"unicode"
	"unicode/utf8"

	"verifh/verif"
)

const libAlpha = "aA1 _\"\\é"

// LibCases is the number of cases of H_Lib.
const LibCases = 57

func H_Lib(k, n int) {
	s := verif.BytesIn(n, "aA1 _\"\\,Z")
	switch k {
	case 0:
		verif.Obs("r", strings.ToLower(s))
	case 1:
		verif.Obs("r", strings.ToUpper(s))
	case 2:
		verif.Obs("r", strings.Join(strings.Fields(s), "|"))
	case 3:
		verif.Obs("r", strings.Join(strings.Split(s, ","), "|"))
	case 4:
		verif.Obs("r", strings.TrimSpace(s))
	case 5:
		verif.Obs("r", strings.Trim(s, "a "))
	case 6:
		verif.Obs("r", strings.TrimRight(s, "a "))
	case 7:
		verif.Obs("r", strings.TrimPrefix(s, "a"))
	case 8:
		verif.Obs("r", strings.TrimSuffix(s, "a"))
	case 9:
		verif.ObsInt("r", strings.IndexByte(s, 'a'))
	case 10:
		verif.ObsInt("r", strings.LastIndex(s, "a"))
	case 11:
		verif.ObsInt("r", strings.IndexAny(s, "a1"))
	case 12:
		verif.ObsInt("r", strings.IndexRune(s, 'A'))
	case 13:
		verif.ObsInt("r", strings.IndexFunc(s, unicode.IsSpace))
	case 14:
		if strings.EqualFold(s, "aa") {
			verif.Obs("r", "fold")
		} else {
			verif.Obs("r", "nofold")
		}
	case 15:
		if strings.Contains(s, "a1") {
			verif.Obs("r", "has")
		} else {
			verif.Obs("r", "hasnot")
		}
	case 16:
		if strings.ContainsRune(s, '_') {
			verif.Obs("r", "has")
		} else {
			verif.Obs("r", "hasnot")
		}
	case 17:
		verif.Obs("r", strings.Repeat(s, 2))
	case 18:
		verif.Obs("r", strings.Replace(s, "a", "bb", 1))
	case 19:
		verif.Obs("r", strings.Map(func(r rune) rune {
			if r == 'a' {
				return 'b'
			}
			return r
		}, s))
	case 20:
		verif.Obs("r", strconv.Quote(s))
	case 21:
		verif.Obs("r", strconv.Itoa(len(s)*7-3))
	case 22:
		v, err := strconv.Atoi(s)
		if err != nil {
			verif.Obs("r", "err")
		} else {
			verif.ObsInt("r", v)
		}
	case 23:
		v, err := strconv.ParseInt(s, 10, 64)
		if err != nil {
			verif.Obs("r", "err")
		} else {
			verif.ObsInt("r", int(v))
		}
	case 24:
		verif.Obs("r", fmt.Sprintf("%s|%q|%d|%v", s, s, len(s), len(s) > 1))
	case 25:
		var b bytes.Buffer
		b.WriteString(s)
		b.WriteByte('x')
		b.WriteString(s)
		verif.Obs("r", b.String())
	case 26:
		var sb strings.Builder
		for _, r := range s {
			if unicode.IsLetter(r) || unicode.IsDigit(r) {
				sb.WriteRune(r)
			}
		}
		verif.Obs("r", sb.String())
	case 27:
		verif.Obs("r", strings.NewReplacer("a", "b", "\\", "\\\\").Replace(s))
	case 28:
		parts := strings.Split(s, "")
		sort.Strings(parts)
		verif.Obs("r", strings.Join(parts, ""))
	case 29:
		parts := strings.Split(s, "")
		slices.Sort(parts)
		verif.Obs("r", strings.Join(parts, ""))
	case 30:
		parts := strings.Split(s, "")
		if slices.Contains(parts, "a") {
			verif.Obs("r", "has")
		} else {
			verif.Obs("r", "hasnot")
		}
	case 31:
		verif.ObsInt("r", utf8.RuneCountInString(s))
	case 32:
		if utf8.ValidString(s) {
			verif.Obs("r", "valid")
		} else {
			verif.Obs("r", "invalid")
		}
	case 33:
		a, b, ok := strings.Cut(s, ",")
		verif.Obs("r", fmt.Sprint(a, "|", b, "|", ok))
	case 34:
		verif.Obs("r", string(bytes.ToUpper([]byte(s))))
	case 35:
		verif.ObsInt("r", strings.Compare(s, "a1"))
	case 36:
		verif.ObsInt("r", strings.Count(s, "a"))
	case 37:
		verif.Obs("r", strings.Title(s)) //nolint
	case 38:
		verif.Obs("r", strings.ToValidUTF8(s, "?"))
	case 39:
		m := map[string]int{}
		for i := 0; i < len(s); i++ {
			m[s[i:i+1]]++
		}
		keys := make([]string, 0, len(m))
		for k := range m {
			keys = append(keys, k)
		}
		sort.Strings(keys)
		r := ""
		for _, k := range keys {
			r += k + strconv.Itoa(m[k])
		}
		verif.Obs("r", r)
	case 40:
		var sb strings.Builder
		sb.Grow(8)
		fmt.Fprintf(&sb, "%s=%d;", s, len(s))
		fmt.Fprint(&sb, s, 1, "x")
		verif.Obs("r", sb.String())
	case 41:
		e1 := fmt.Errorf("inner %s", s)
		e2 := fmt.Errorf("outer: %w", e1)
		verif.Obs("r", e2.Error())
		if errors.Is(e2, e1) {
			verif.Obs("is", "yes")
		}
		verif.Obs("j", errors.Join(e1, errors.New(s)).Error())
	case 42:
		parts := strings.Split(s, "")
		slices.Reverse(parts)
		parts = slices.Insert(parts, 0, "x")
		verif.Obs("r", strings.Join(parts, "")+strconv.Itoa(slices.Index(parts, "a")))
	case 43:
		parts := strings.Split(s+"ba", "")
		sort.SliceStable(parts, func(i, j int) bool { return parts[i] < parts[j] })
		verif.Obs("r", strings.Join(parts, ""))
	case 44:
		b := strconv.AppendInt(nil, int64(len(s))-5, 10)
		b = strconv.AppendQuote(b, s)
		verif.Obs("r", string(b))
	case 45:
		r := ""
		for _, c := range s {
			if unicode.IsUpper(c) {
				r += string(unicode.ToLower(c))
			} else {
				r += string(unicode.ToUpper(c))
			}
		}
		verif.Obs("r", r)
	case 46:
		var b []byte
		for _, c := range s {
			b = utf8.AppendRune(b, c+1)
		}
		verif.Obs("r", string(b))
	case 47:
		verif.Obs("r", fmt.Sprintf("%5s|%-5s|%x|%c|%U|%03d|%t", s, s, s, 'a', 'b', len(s), true))
	case 48:
		verif.Obs("r", fmt.Sprintf("%v %v %+v", []string{s, "x"}, map[string]int{"k": 1}, struct{ A string }{s}))
	case 49:
		if strings.HasPrefix(s, "a") && strings.HasSuffix(s, "1") || strings.ContainsAny(s, "Z,") {
			verif.Obs("r", "yes")
		} else {
			verif.Obs("r", "no")
		}
	case 50:
		verif.ObsInt("r", strings.LastIndexByte(s, 'a')*10+strings.LastIndexAny(s, "a1"))
	case 51:
		verif.Obs("r", strings.TrimFunc(s, func(r rune) bool { return r == 'a' || unicode.IsSpace(r) }))
	case 52:
		f := strings.FieldsFunc(s, func(r rune) bool { return r == ',' || r == '_' })
		verif.Obs("r", strings.Join(f, "|"))
	case 53:
		verif.Obs("r", strings.Join(strings.SplitN(s+",x,y", ",", 2), "|")+"#"+strings.Join(strings.SplitAfter(s, ","), "|"))
	case 54:
		v, err := strconv.Unquote("\"" + s + "\"")
		if err != nil {
			verif.Obs("r", "err")
		} else {
			verif.Obs("r", v)
		}
	case 55:
		v, err := strconv.ParseBool(s)
		verif.Obs("r", fmt.Sprint(v, err != nil))
	case 56:
		var sb strings.Builder
		r := strings.NewReplacer("\"", "\"\"", "a1", "X", "a", "Y")
		n, err := r.WriteString(&sb, s)
		verif.Obs("r", fmt.Sprint(sb.String(), n, err))
	}
	verif.Cover("lib-case")
}
