package h

import (
	"github.com/runreveal/pql"
	"github.com/runreveal/pql/parser"

	"verifh/verif"
)

// paramMaps are the parameter-map variants drawn by the totality harnesses.
func paramOptions(sel int) *pql.CompileOptions {
	switch sel {
	case 0:
		return nil
	case 1:
		return &pql.CompileOptions{}
	case 2:
		return &pql.CompileOptions{Parameters: map[string]string{}}
	case 3:
		return &pql.CompileOptions{Parameters: map[string]string{"a": "$1", "T": "{t:String}"}}
	case 4:
		return &pql.CompileOptions{Parameters: map[string]string{"a": "?", "$left": "?", "true": "0", "count": "c", "b": ""}}
	default:
		// empty and odd texts for the names every vocabulary has
		return &pql.CompileOptions{Parameters: map[string]string{"a": "", "T": "", "f": "-"}}
	}
}

// Entry runs every public entry point on src; mode 13 also asserts the either/or contract of Compile.
func Entry(src string, mode int) {
	toks := parser.Scan(src)
	parts := parser.SplitStatements(src)
	stmts, err := parser.Parse(src)
	if len(toks) > 0 {
		verif.Cover("has-token")
	}
	if len(parts) > 1 {
		verif.Cover("has-semicolon-token")
	}
	if err == nil {
		verif.Cover("parsed")
		for _, st := range stmts {
			n := 0
			parser.Walk(st, func(parser.Node) bool { n++; return true })
			if n > 0 {
				verif.Cover("walked")
			}
		}
	} else {
		verif.Cover("parse-error")
		_ = err.Error() // the message itself is computed without panic
	}
	sel := 0
	if err == nil {
		// parameters can only matter once the source parses
		sel = verif.Concrete(verif.IntRange(0, 6))
	}
	sql, cerr := paramOptions(sel).Compile(src)
	if cerr == nil {
		verif.Cover("compiled")
	} else {
		verif.Cover("compile-error")
		_ = cerr.Error()
	}
	if mode == 13 {
		verif.Assert((sql != "" && cerr == nil) || (sql == "" && cerr != nil), "Compile returned neither or both of SQL and error")
		if err != nil {
			verif.Assert(cerr != nil, "Compile succeeded on a source that does not parse")
		}
	}
}

// H_C12 totality on n arbitrary bytes: panics and non-termination are reported by the engine.
func H_C12(n, alpha int) {
	Entry(GenBytes(n, alpha), 12)
}

// H_C13a is the either/or contract on n arbitrary bytes.
func H_C13a(n, alpha int) {
	Entry(GenBytes(n, alpha), 13)
}

// H_C12tok is totality on every sequence of k tokens over a vocabulary.
func H_C12tok(k, vocab int) {
	Entry(verif.Tokens(k, Vocab(vocab)), 12)
}

// H_C13atok is the either/or contract on every sequence of k tokens.
func H_C13atok(k, vocab int) {
	Entry(verif.Tokens(k, Vocab(vocab)), 13)
}

// Probes are concrete inputs that exercised defects during development; they
// validate the engine against the native build (not part of any claim).
var Probes = []string{
	"T | where (a)",
	"T | take (1)",
	"A | join (B) on ($left.x) == $right.y",
	"T | extend a+b",
	"let n = -5; T | take -n",
	"T | where not(a) in (1,2)",
	"T | where f(b[=])",
	"T | as __subquery1 | where x | where y",
	"T | where a == 'x\\\\'",
	"T | render `x' y`",
	"A | join kind=bad (B) on k",
	"T | summarize count() by a, b | sort by a asc nulls last | top 3 by b",
}

// H_Probe runs one concrete probe through every entry point.
func H_Probe(i int) {
	Entry(Probes[i], 13)
}

// H_C12names is totality on the name-collision shapes (names that collide with generated subquery names).
func H_C12names(s int) {
	vocab := Vocab(5)
	shape := NameShapes[s]
	slots := make([]int, len(shape))
	for i, l := range shape {
		if l == "?" {
			slots[i] = -1
		} else if l == "U" {
			slots[i] = vocabIndex(vocab, "T")
		} else {
			slots[i] = vocabIndex(vocab, l)
		}
	}
	Entry(verif.TokenSeq(vocab, slots), 12)
}

// ---- deep and long programs --------------------------------------------------

// deepVocab is a narrow vocabulary (slot width 8) for programs of hundreds of tokens.
var deepVocab = []string{"a", "T", "let", "where", "take", "project", "join", "on", "as", "f", "not", "in", "and", "or", "1", "'s'",
	"|", "(", ")", "[", "]", ",", "=", "==", "+", "-", ";", ".", "!", "'u"}

func rep(dst []string, n int, lex ...string) []string {
	for i := 0; i < n; i++ {
		dst = append(dst, lex...)
	}
	return dst
}

// DeepFamilies is the number of program families of H_C12deep.
const DeepFamilies = 32

// deepProgram returns family f at size n as a lexeme list; the families nest or
// repeat one construct n times (valid and invalid ones).
func deepProgram(f, n int) []string {
	p := []string{"T", "|", "where"}
	switch f {
	case 0: // nested parentheses
		p = rep(p, n, "(")
		p = append(p, "a")
		p = rep(p, n, ")")
	case 1: // sign chain
		p = rep(p, n, "-")
		p = append(p, "a")
	case 2: // index chain
		p = append(p, "a")
		p = rep(p, n, "[", "1", "]")
	case 3: // nested calls
		p = rep(p, n, "f", "(")
		p = append(p, "a")
		p = rep(p, n, ")")
	case 4: // nested joins
		p = []string{"T"}
		p = rep(p, n, "|", "join", "(", "T")
		p = rep(p, n, ")", "on", "a")
	case 5: // long left-leaning sum
		p = append(p, "a")
		p = rep(p, n, "+", "a")
	case 6: // unclosed parentheses
		p = rep(p, n, "(")
		p = append(p, "a")
	case 7: // empty statements
		p = rep(nil, n, ";")
		p = append(p, "T")
	case 8: // nested in-lists
		p = rep(p, n, "a", "in", "(")
		p = append(p, "1")
		p = rep(p, n, ")")
	case 9: // nested not()
		p = rep(p, n, "not", "(")
		p = append(p, "a")
		p = rep(p, n, ")")
	case 10: // long pipeline (many subqueries)
		p = []string{"T"}
		p = rep(p, n, "|", "where", "a", "|", "take", "1")
	case 11: // chain of lets
		p = nil
		p = rep(p, n, "let", "a", "=", "a", "+", "1", ";")
		p = append(p, "T", "|", "where", "a")
	case 12: // error density: error tokens
		p = rep(p, n, "!", "'u")
	case 13: // many columns
		p = []string{"T", "|", "project"}
		p = rep(p, n, "a", "=", "a", "+", "1", ",")
		p = append(p, "a")
	case 14: // surplus closing brackets
		p = append(p, "a")
		p = rep(p, n, ")", "]")
	case 15: // alternating and/or (precedence climbing both ways)
		p = append(p, "a")
		p = rep(p, n, "and", "a", "or", "a", "==", "a")
	case 16: // nested mixed brackets
		p = rep(p, n, "f", "(", "a", "[")
		p = append(p, "1")
		p = rep(p, n, "]", ")")
	case 17: // repeated as + where (name tables grow)
		p = []string{"T"}
		p = rep(p, n, "|", "as", "a", "|", "where", "a", "==", "1")
	case 18: // nested joins that all lack their conditions (error density grows with depth)
		p = []string{"T"}
		p = rep(p, n, "|", "join", "(", "T")
		p = rep(p, n, ")")
	case 19: // unclosed nested joins
		p = []string{"T"}
		p = rep(p, n, "|", "join", "(", "T")
	case 20: // nested calls with trailing commas, unclosed
		p = rep(p, n, "f", "(", "a", ",")
	case 21: // nested index expressions
		p = rep(p, n, "a", "[")
		p = append(p, "1")
		p = rep(p, n, "]")
	case 22: // nested not() without closing parentheses
		p = rep(p, n, "not", "(")
		p = append(p, "a")
	case 23: // one call with n arguments
		p = append(p, "f", "(", "a")
		p = rep(p, n, ",", "a")
		p = append(p, ")")
	case 24: // one in-list with n values
		p = append(p, "a", "in", "(", "1")
		p = rep(p, n, ",", "1")
		p = append(p, ")")
	case 25: // n sort terms (via project: the narrow vocabulary has no sort)
		p = []string{"T", "|", "project", "a"}
		p = rep(p, n, ",", "a", "=", "f", "(", "a", ",", "1", ")")
	case 26: // join with n conditions
		p = []string{"T", "|", "join", "(", "T", ")", "on", "a"}
		p = rep(p, n, ",", "a")
	case 27: // call arguments that are calls, n wide and 3 deep
		p = append(p, "f", "(", "a")
		p = rep(p, n, ",", "f", "(", "f", "(", "a", ")", ",", "1", ")")
		p = append(p, ")")
	case 28: // erroneous operand inside parentheses, each level indexed
		p = rep(p, n, "(")
		p = append(p, ".", "a")
		p = rep(p, n, ")", "[", "1", "]")
	case 29: // erroneous argument inside calls, each level indexed
		p = rep(p, n, "f", "(")
		p = append(p, ".", "a")
		p = rep(p, n, ")", "[", "1", "]")
	case 30: // two operands without operator at the core of nested parentheses
		p = rep(p, n, "(")
		p = append(p, "a", "a")
		p = rep(p, n, ")")
	case 31: // erroneous value at the core of nested in-lists, each level followed by an operator
		p = rep(p, n, "a", "in", "(")
		p = append(p, ".", "1")
		p = rep(p, n, ")", "+", "1")
	default:
		panic("unknown deep family")
	}
	return p
}

// H_C12deep is totality on deep/long programs of family f at size n with two
// arbitrary tokens (one third and two thirds into the program).
func H_C12deep(f, n int) {
	prog := deepProgram(f, n)
	slots := make([]int, len(prog))
	for i, l := range prog {
		slots[i] = vocabIndex(deepVocab, l)
	}
	slots[len(slots)/3] = -1
	slots[2*len(slots)/3] = -1
	src := verif.TokenSeq(deepVocab, slots)
	if len(src) >= 2048 {
		verif.Cover("kilobytes")
	}
	Entry(src, 13)
}

// H_C12letdouble: n lets each mentioning the previous binding twice. The compiled
// text doubles per let (KNOWN FINDING, see known_findings.json: substitution is textual,
// so 400 bytes of source make hundreds of megabytes of SQL and run for seconds).
func H_C12letdouble(n int) {
	src := "let a = 1;"
	for i := 0; i < n; i++ {
		src += "let a = a + a;"
	}
	src += "T | where a"
	verif.Cover("let-doubling")
	Entry(src, 13)
}

// H_C12long is totality on the framed byte-level families of C09 (long strings, names,
// comments and numbers with arbitrary bytes at either end, unterminated ones included).
func H_C12long(f, nmax int) {
	n := verif.Concrete(verif.IntRange(0, nmax+1))
	src := longSource(f, n)
	if verif.Bool() {
		src = "T | where a == " + src
	}
	Entry(src, 13)
	verif.Cover("long-bytes")
}
