package h

// Independent SQL lexers for the emitted text: standard SQL quoting rules and
// ClickHouse rules (backslash escapes inside quotes, # comments). Oracle of
// C04, C05 and front end of the SQL parsers used by C01-C03, C06.

const (
	SQLWord    = iota + 1 // bare word: keyword, function name, TRUE, ...
	SQLQIdent             // "..." or `...`
	SQLString             // '...'
	SQLNumber             // 12, 1.5, 1e9, 0x1f
	SQLPunct              // operators and punctuation
	SQLParam              // $1  {name:Type}  ?
	SQLComment            // -- ...   /* ... */   # ...
	SQLError              // unterminated token or a byte no token starts with
)

// SQLTok is one lexical token of SQL text.
type SQLTok struct {
	Kind       int
	Text       string // raw text
	Val        string // decoded content of strings and quoted identifiers
	Start, End int
}

// Dialect selects the lexical rules.
type Dialect struct {
	Backslash bool // backslash escapes inside '...', "..." and `...`
	Hash      bool // # starts a comment
}

var StdSQL = Dialect{}
var ClickHouse = Dialect{Backslash: true, Hash: true}

func isWordStart(c byte) bool { return isLetter(c) || c == '_' }
func isWordChar(c byte) bool  { return isLetter(c) || isDig(c) || c == '_' || c == '$' }

func decodeBackslash(c byte) string {
	switch c {
	case 'n':
		return "\n"
	case 't':
		return "\t"
	case 'r':
		return "\r"
	case '0':
		return "\x00"
	case 'b':
		return "\b"
	case 'f':
		return "\f"
	case 'a':
		return "\a"
	case 'v':
		return "\v"
	case 'e':
		return "\x1b"
	}
	return string([]byte{c})
}

// SQLLex tokenizes s under the dialect. White space is skipped; comments and
// errors are returned as tokens so that callers can forbid them.
func SQLLex(s string, d Dialect) []SQLTok {
	var toks []SQLTok
	n := len(s)
	i := 0
	for i < n {
		c := s[i]
		start := i
		switch {
		case c == ' ' || c == '\t' || c == '\n' || c == '\r' || c == '\f' || c == '\v':
			i++
		case c == '\'' || c == '"' || c == '`':
			i++
			val := ""
			seg := i
			closed := false
			for i < n {
				e := s[i]
				if e == c {
					if i+1 < n && s[i+1] == c {
						val += s[seg:i] + string([]byte{c})
						i += 2
						seg = i
						continue
					}
					val += s[seg:i]
					i++
					closed = true
					break
				}
				if e == '\\' && d.Backslash {
					val += s[seg:i]
					if i+1 >= n {
						i = n
						seg = n
						break
					}
					val += decodeBackslash(s[i+1])
					i += 2
					seg = i
					continue
				}
				i++
			}
			k := SQLQIdent
			if c == '\'' {
				k = SQLString
			}
			if !closed {
				k = SQLError
			}
			toks = append(toks, SQLTok{Kind: k, Text: s[start:i], Val: val, Start: start, End: i})
		case c == '-' && i+1 < n && s[i+1] == '-':
			for i < n && s[i] != '\n' {
				i++
			}
			toks = append(toks, SQLTok{Kind: SQLComment, Text: s[start:i], Start: start, End: i})
		case c == '#' && d.Hash:
			for i < n && s[i] != '\n' {
				i++
			}
			toks = append(toks, SQLTok{Kind: SQLComment, Text: s[start:i], Start: start, End: i})
		case c == '/' && i+1 < n && s[i+1] == '*':
			i += 2
			closed := false
			for i+1 < n {
				if s[i] == '*' && s[i+1] == '/' {
					i += 2
					closed = true
					break
				}
				i++
			}
			k := SQLComment
			if !closed {
				i = n
				k = SQLError
			}
			toks = append(toks, SQLTok{Kind: k, Text: s[start:i], Start: start, End: i})
		case isDig(c) || (c == '.' && i+1 < n && isDig(s[i+1])):
			if c == '0' && i+1 < n && (s[i+1] == 'x' || s[i+1] == 'X') && i+2 < n && isHex(s[i+2]) {
				i += 2
				for i < n && isHex(s[i]) {
					i++
				}
			} else {
				for i < n && isDig(s[i]) {
					i++
				}
				if i < n && s[i] == '.' {
					i++
					for i < n && isDig(s[i]) {
						i++
					}
				}
				i = scanExponent(s, i)
			}
			k := SQLNumber
			if i < n && isWordChar(s[i]) {
				// a number directly followed by word characters is not a number token
				for i < n && isWordChar(s[i]) {
					i++
				}
				k = SQLError
			}
			toks = append(toks, SQLTok{Kind: k, Text: s[start:i], Start: start, End: i})
		case isWordStart(c):
			for i < n && isWordChar(s[i]) {
				i++
			}
			toks = append(toks, SQLTok{Kind: SQLWord, Text: s[start:i], Start: start, End: i})
		case c == '$':
			i++
			for i < n && isWordChar(s[i]) {
				i++
			}
			toks = append(toks, SQLTok{Kind: SQLParam, Text: s[start:i], Start: start, End: i})
		case c == '{':
			for i < n && s[i] != '}' {
				i++
			}
			k := SQLParam
			if i < n {
				i++
			} else {
				k = SQLError
			}
			toks = append(toks, SQLTok{Kind: k, Text: s[start:i], Start: start, End: i})
		case c == '?':
			i++
			toks = append(toks, SQLTok{Kind: SQLParam, Text: "?", Start: start, End: i})
		default:
			two := ""
			if i+1 < n {
				two = s[i : i+2]
			}
			switch {
			case two == "<>" || two == "!=" || two == "<=" || two == ">=" || two == "==" || two == "||" || two == "::":
				i += 2
			case c == '(' || c == ')' || c == ',' || c == ';' || c == '.' || c == '*' || c == '+' || c == '-' || c == '/' ||
				c == '%' || c == '=' || c == '<' || c == '>' || c == '[' || c == ']':
				i++
			default:
				i++
				toks = append(toks, SQLTok{Kind: SQLError, Text: s[start:i], Start: start, End: i})
				continue
			}
			toks = append(toks, SQLTok{Kind: SQLPunct, Text: s[start:i], Start: start, End: i})
		}
	}
	return toks
}

func upper(s string) string {
	b := []byte(s)
	for i, c := range b {
		if 'a' <= c && c <= 'z' {
			b[i] = c - 'a' + 'A'
		}
	}
	return string(b)
}
