package h

import (
	"github.com/runreveal/pql"
	"github.com/runreveal/pql/parser"

	"verifh/verif"
)

// Hole describes one position where literal or name content can occur.
type Hole struct {
	Pre, Post string // program text before and after the content
	Open      int    // bytes of opening quote belonging to the PQL token before the content (0 or 1)
	Close     int    // bytes of closing quote after the content (0 or 1)
	Kind      string // "string", "name", "ident", "number", "implicit"
	SQLPrefix string // text the SQL name carries before the content (render property columns)
	A, B      string // two benign contents
	Alpha     string // alphabet for constrained holes ("" = all bytes)
	IntOnly   bool   // number positions that take integer literals only (row counts)
}

// Holes are the content positions of C04.
var Holes = []Hole{
	{Pre: "T | where a == '", Post: "'", Open: 1, Close: 1, Kind: "string", A: "x", B: "y"},
	{Pre: "T | where a == \"", Post: "\"", Open: 1, Close: 1, Kind: "string", A: "x", B: "y"},
	{Pre: "T | where a in ('", Post: "', 'k')", Open: 1, Close: 1, Kind: "string", A: "x", B: "y"},
	{Pre: "T | where f('", Post: "') > 1", Open: 1, Close: 1, Kind: "string", A: "x", B: "y"},
	{Pre: "let s = '", Post: "'; T | where a == s", Open: 1, Close: 1, Kind: "string", A: "x", B: "y"},
	{Pre: "T | render c with (title='", Post: "')", Open: 1, Close: 1, Kind: "string", A: "x", B: "y"},
	{Pre: "`", Post: "` | count", Open: 1, Close: 1, Kind: "name", A: "x", B: "y"},
	{Pre: "T | join (`", Post: "`) on a", Open: 1, Close: 1, Kind: "name", A: "x", B: "y"},
	{Pre: "T | where `", Post: "` == 1", Open: 1, Close: 1, Kind: "name", A: "x", B: "y"},
	{Pre: "T | project `", Post: "` = a", Open: 1, Close: 1, Kind: "name", A: "x", B: "y"},
	{Pre: "T | extend `", Post: "` = a", Open: 1, Close: 1, Kind: "name", A: "x", B: "y"},
	{Pre: "T | summarize `", Post: "` = count() by a", Open: 1, Close: 1, Kind: "name", A: "x", B: "y"},
	{Pre: "T | as `", Post: "` | count", Open: 1, Close: 1, Kind: "name", A: "x", B: "y"},
	{Pre: "T | render `", Post: "`", Open: 1, Close: 1, Kind: "charttype", A: "x", B: "y"},
	{Pre: "T | render c with (`", Post: "` = 1)", Open: 1, Close: 1, Kind: "name", SQLPrefix: "render_prop_", A: "x", B: "y"},
	{Pre: "T | where a.`", Post: "` == 1", Open: 1, Close: 1, Kind: "name", A: "x", B: "y"},
	{Pre: "T | where q", Post: " == 1", Kind: "ident", A: "x", B: "y", Alpha: "az_09AZ$"},
	{Pre: "T | where a == ", Post: " and b", Kind: "number", A: "1", B: "2", Alpha: "0179.eE+-xXaAfF"},
	{Pre: "T | extend b == '", Post: "'", Open: 1, Close: 1, Kind: "implicit", A: "x", B: "y"},
	// 19-23: names and numbers in further contexts (second round of seeded changes)
	{Pre: "A | join (B | as `", Post: "`) on k", Open: 1, Close: 1, Kind: "name", A: "x", B: "y"},
	{Pre: "T | where a == -", Post: " and b", Kind: "number", A: "1", B: "2", Alpha: "0179.eE+-xXaAfF"},
	{Pre: "T | take ", Post: "", Kind: "number", A: "1", B: "2", Alpha: "0179xXaAfF", IntOnly: true},
	{Pre: "T | as `", Post: "` | where a | join (U) on k | count", Open: 1, Close: 1, Kind: "name", A: "x", B: "y"},
	{Pre: "T | sort by `", Post: "` desc", Open: 1, Close: 1, Kind: "name", A: "x", B: "y"},
	// 24-27: strings as operands of the other comparison operators and of strcat
	{Pre: "T | where a =~ '", Post: "'", Open: 1, Close: 1, Kind: "string", A: "x", B: "y"},
	{Pre: "T | where a !~ \"", Post: "\"", Open: 1, Close: 1, Kind: "string", A: "x", B: "y"},
	{Pre: "T | where '", Post: "' != a", Open: 1, Close: 1, Kind: "string", A: "x", B: "y"},
	{Pre: "T | extend b = strcat(a, '", Post: "')", Open: 1, Close: 1, Kind: "string", A: "x", B: "y"},
}

// holeTokens returns the indexes of the tokens that differ between two token lists of equal shape.
func holeTokens(a, b []SQLTok) []int {
	var idx []int
	for i := range a {
		if i < len(b) && a[i].Text != b[i].Text {
			idx = append(idx, i)
		}
	}
	return idx
}

func hasInt(l []int, x int) bool {
	for _, v := range l {
		if v == x {
			return true
		}
	}
	return false
}

// CheckContent is the C04 check for one content position with the given content.
func CheckContent(hp Hole, content string) {
	src := hp.Pre + content + hp.Post
	toks := parser.Scan(src)
	base := parser.Scan(hp.Pre + hp.A + hp.Post)
	// the content must lie inside the one PQL token the skeleton puts there
	verif.Assume(len(toks) == len(base))
	hi := -1
	for i, t := range base {
		if t.Span.Start <= len(hp.Pre) && len(hp.Pre) < t.Span.End {
			hi = i
		}
	}
	verif.Assume(hi >= 0)
	for i, t := range toks {
		verif.Assume(t.Kind == base[i].Kind)
		if i == hi {
			verif.Assume(t.Span.Start == base[i].Span.Start && t.Span.End == base[i].Span.End+len(content)-len(hp.A))
		}
	}
	pqlValue := toks[hi].Value
	// the value written in PQL is taken from the reference token language, not from the
	// lexer under test (their agreement is C09's subject; here a disagreement would let a
	// wrong value pass as "faithfully transmitted")
	if ref, stop := RefScan(src); stop < 0 && len(ref) == len(toks) && ref[hi].Kind == toks[hi].Kind && ref[hi].CheckValue && ref[hi].Kind != parser.TokenError {
		pqlValue = ref[hi].Value
		verif.Cover("reference-value")
	}
	pqlName := pqlValue
	if hp.Kind == "implicit" {
		pqlName = src[len("T | extend "):] // the column is named after its source text
	}
	if hp.IntOnly {
		lit := &parser.BasicLit{Kind: toks[hi].Kind, Value: toks[hi].Value}
		verif.Assume(lit.IsInteger())
	}
	verif.Cover("content-admitted")

	sql, err := pql.Compile(src)
	sqlA, errA := pql.Compile(hp.Pre + hp.A + hp.Post)
	sqlB, errB := pql.Compile(hp.Pre + hp.B + hp.Post)
	if errA != nil || errB != nil {
		return // the skeleton itself does not compile on this tree: other checks own that
	}
	_ = sqlB
	verif.Assert(err == nil, "content inside a literal or name makes compilation fail")
	if err != nil {
		return
	}
	verif.Cover("compiled")
	for di, d := range []Dialect{StdSQL, ClickHouse} {
		got := SQLLex(sql, d)
		a := SQLLex(sqlA, d)
		b := SQLLex(sqlB, d)
		holes := holeTokens(a, b)
		for _, t := range got {
			verif.Assert(t.Kind != SQLError, "content produces an unterminated or illegal SQL token")
			verif.Assert(t.Kind != SQLComment, "content opens a comment in the SQL")
		}
		verif.Assert(len(got) == len(a), "content changes the number of SQL tokens")
		if len(got) != len(a) {
			return
		}
		for i := range got {
			verif.Assert(got[i].Kind == a[i].Kind, "content changes the kind of an SQL token")
			if !hasInt(holes, i) {
				verif.Assert(got[i].Text == a[i].Text, "content changes an SQL token that does not represent it")
			}
		}
		if di == 1 {
			// value fidelity under the target dialect's lexical rules
			for _, i := range holes {
				switch got[i].Kind {
				case SQLString:
					verif.Assert(got[i].Val == pqlValue, "the SQL string literal does not decode to the PQL value")
				case SQLQIdent:
					verif.Assert(got[i].Val == hp.SQLPrefix+pqlName, "the SQL quoted identifier does not decode to the PQL name")
				case SQLNumber:
					verif.Assert(got[i].Text == pqlValue, "the SQL number is not the normalised PQL number")
					if hp.Kind == "number" {
						verif.Assert(SameNumber(content, got[i].Text), "the SQL number does not denote the numeric value written in PQL")
						verif.Cover("number-value-checked")
					}
				}
			}
			verif.Cover("decoded")
		}
	}
}

// H_C04 checks content position p with m arbitrary bytes of content.
func H_C04(p, m int) {
	hp := Holes[p]
	var content string
	if hp.Alpha == "" {
		content = verif.Bytes(m)
	} else {
		content = verif.BytesIn(m, hp.Alpha)
	}
	CheckContent(hp, content)
}

// longLens are the run lengths of the framed long contents: every small length and the
// neighbourhoods of powers of two where buffers and fast paths change behaviour.
var longLens = []int{0, 1, 2, 3, 4, 5, 6, 7, 8, 9, 10, 11, 12, 13, 14, 15, 16, 17, 18, 19, 20, 30, 31, 32, 33, 62, 63, 64, 65, 126, 127, 128, 129, 254, 255, 256, 257, 1022, 1023, 1024, 1025, 4094, 4095, 4096, 4097}

// H_C04long checks content position p with framed long contents: two arbitrary bytes
// around a run of 'a' (strings and names) or one of the numeric boundary families of
// C09 (numbers), for the first nl run lengths of longLens.
func H_C04long(p, nl int) {
	hp := Holes[p]
	n := longLens[verif.Concrete(verif.IntRange(0, nl))]
	var content string
	switch hp.Kind {
	case "number":
		verif.Assume(n <= 20)
		numeric := []int{0, 1, 2, 3, 4, 5, 6, 11, 12, 13}
		content = longSource(numeric[verif.Concrete(verif.IntRange(0, len(numeric)))], n)
	case "ident":
		hb := verif.BytesIn(2, "a_1Z")
		content = "q" + hb[:1]
		for i := 0; i < n; i++ {
			content += "a"
		}
		content += hb[1:]
	default:
		hb := verif.BytesIn(2, "'\"`\\a\xc3\xa9 \n")
		content = hb[:1]
		for i := 0; i < n; i++ {
			content += "a"
		}
		content += hb[1:]
	}
	CheckContent(hp, content)
	verif.Cover("long-content")
}

// DictContents are fixed contents that spell something meaningful elsewhere in the language or in SQL.
var DictContents = []string{"true", "null", "false", "count", "$left", "$right", "a b", "select", "and", "T", "__subquery0", "1", "0x1F", "a.b", "x) or (y", "-- c", "/*", "s", "n"}

// H_C04dict checks content position p with the dictionary contents (every one the lexer admits there).
func H_C04dict(p int) {
	hp := Holes[p]
	if hp.Kind == "number" || hp.Kind == "ident" {
		return
	}
	CheckContent(hp, DictContents[verif.Concrete(verif.IntRange(0, len(DictContents)))])
}

// numParts splits a decimal spelling into integer digits (leading zeros removed),
// fraction digits (trailing zeros removed) and a signed decimal exponent; hexadecimal
// spellings are converted to their decimal integer digits.
func numParts(s string) (ip, fp string, exp int, ok bool) {
	if len(s) >= 2 && s[0] == '0' && (s[1] == 'x' || s[1] == 'X') {
		var v uint64
		z := 2
		for z < len(s)-1 && s[z] == '0' {
			z++
		}
		if len(s) == 2 || len(s)-z > 16 {
			return "", "", 0, false
		}
		for i := z; i < len(s); i++ {
			if !isHex(s[i]) {
				return "", "", 0, false
			}
			v = v<<4 | hexVal(s[i])
		}
		if v == 0 {
			return "", "", 0, true
		}
		return utoa(v), "", 0, true
	}
	i := 0
	for i < len(s) && isDig(s[i]) {
		i++
	}
	ip = s[:i]
	if i < len(s) && s[i] == '.' {
		j := i + 1
		for j < len(s) && isDig(s[j]) {
			j++
		}
		fp = s[i+1 : j]
		i = j
	}
	if i < len(s) && (s[i] == 'e' || s[i] == 'E') {
		i++
		neg := false
		if i < len(s) && (s[i] == '+' || s[i] == '-') {
			neg = s[i] == '-'
			i++
		}
		if i >= len(s) {
			return "", "", 0, false
		}
		for i < len(s) && isDig(s[i]) {
			exp = exp*10 + int(s[i]-'0')
			i++
		}
		if neg {
			exp = -exp
		}
	}
	if i != len(s) {
		return "", "", 0, false
	}
	k := 0
	for k < len(ip) && ip[k] == '0' {
		k++
	}
	ip = ip[k:]
	k = len(fp)
	for k > 0 && fp[k-1] == '0' {
		k--
	}
	fp = fp[:k]
	if ip == "" && fp == "" {
		exp = 0 // zero, whatever the exponent
	}
	return ip, fp, exp, true
}

// SameNumber reports whether two numeric spellings denote the same value.
func SameNumber(a, b string) bool {
	ai, af, ae, ok1 := numParts(a)
	bi, bf, be, ok2 := numParts(b)
	return ok1 && ok2 && ai == bi && af == bf && ae == be
}
