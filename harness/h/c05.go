package h

import (
	"github.com/runreveal/pql"
	"github.com/runreveal/pql/parser"

	"verifh/verif"
)

// sourceTables collects the table names written in the PQL program.
func sourceTables(x *parser.TabularExpr, out []string) []string {
	if x == nil {
		return out
	}
	if ref, ok := x.Source.(*parser.TableRef); ok && ref.Table != nil {
		out = append(out, ref.Table.Name)
	}
	for _, op := range x.Operators {
		if j, ok := op.(*parser.JoinOperator); ok {
			out = sourceTables(j.Right, out)
		}
	}
	return out
}

// asOperatorNames collects the names given by "as" operators.
func asOperatorNames(x *parser.TabularExpr, out []string) []string {
	if x == nil {
		return out
	}
	for _, op := range x.Operators {
		switch op := op.(type) {
		case *parser.AsOperator:
			if op.Name != nil {
				out = append(out, op.Name.Name)
			}
		case *parser.JoinOperator:
			out = asOperatorNames(op.Right, out)
		}
	}
	return out
}

func containsStr(l []string, s string) bool {
	for _, x := range l {
		if x == s {
			return true
		}
	}
	return false
}

func selectSources(sel *SQLSelect, out []SQLSource) []SQLSource {
	out = append(out, sel.From)
	if sel.HasJoin {
		out = append(out, sel.Join)
	}
	return out
}

func checkSources(sel *SQLSelect, defined []string, tables []string, used map[string]bool) {
	for _, src := range selectSources(sel, nil) {
		if src.Sub != nil {
			checkSources(src.Sub, defined, tables, used)
			continue
		}
		isCTE := containsStr(defined, src.Table)
		if isCTE {
			used[src.Table] = true
		}
		verif.Assert(isCTE || containsStr(tables, src.Table), "a FROM/JOIN reads a table that is neither named in the PQL source nor a CTE defined earlier")
	}
}

// CheckOneStatement asserts that sql is exactly one well-formed statement
// whose table references resolve (C05).
func CheckOneStatement(sql string, tables []string, asNames []string) {
	std := SQLLex(sql, StdSQL)
	ch := SQLLex(sql, ClickHouse)
	for _, toks := range [][]SQLTok{std, ch} {
		semis := 0
		for i, t := range toks {
			verif.Assert(t.Kind != SQLError, "the output has an unterminated or illegal token")
			verif.Assert(t.Kind != SQLComment, "the output contains a comment (placeholder or injected)")
			if t.Kind == SQLPunct && t.Text == ";" {
				semis++
				verif.Assert(i == len(toks)-1, "a statement separator before the end of the output")
			}
		}
		verif.Assert(semis == 1, "the output does not end in exactly one semicolon")
	}
	st, msg := SQLParseStatement(ch)
	verif.Assert(msg == "", "the output is not one [WITH ...] SELECT statement: "+msg)
	if st == nil {
		return
	}
	var defined []string
	used := map[string]bool{}
	for _, cte := range st.CTEs {
		// two subqueries may share a name only if the user named both with "as"
		dup := 0
		for _, d := range defined {
			if d == cte.Name {
				dup++
			}
		}
		user := 0
		for _, a := range asNames {
			if a == cte.Name {
				user++
			}
		}
		verif.Assert(dup == 0 || dup < user, "two common table expressions have the same name")
		checkSources(cte.Sel, defined, tables, used)
		defined = append(defined, cte.Name)
	}
	checkSources(st.Sel, defined, tables, used)
	for _, name := range defined {
		verif.Assert(used[name], "a common table expression is never used")
	}
	if len(st.CTEs) > 0 {
		verif.Cover("with-ctes")
	}
}

// CheckCompiledStatement compiles src and checks the output when compilation succeeds.
func CheckCompiledStatement(src string) {
	sql, err := pql.Compile(src)
	if err != nil {
		verif.Cover("compile-error")
		return
	}
	verif.Cover("compiled")
	stmts, perr := parser.Parse(src)
	if perr != nil {
		return // C13's subject
	}
	var tables, asNames []string
	for _, st := range stmts {
		if t, ok := st.(*parser.TabularExpr); ok {
			tables = sourceTables(t, tables)
			asNames = asOperatorNames(t, asNames)
		}
	}
	CheckOneStatement(sql, tables, asNames)
}

// H_C05 checks every compiling sequence of k tokens.
func H_C05(k, vocab int) {
	CheckCompiledStatement(verif.Tokens(k, Vocab(vocab)))
}

// H_C05seed checks seed programs with n arbitrary corruptions.
func H_C05seed(s, n int) {
	vocab := Vocab(0)
	seed := seedByIndex(s)
	slots := make([]int, len(seed))
	for i, l := range seed {
		slots[i] = vocabIndex(vocab, l)
	}
	for c := 0; c < n; c++ {
		kind := verif.Concrete(verif.IntRange(0, 6))
		p := verif.Concrete(verif.IntRange(0, len(slots)))
		slots = corrupt(slots, kind, p)
	}
	CheckCompiledStatement(verif.TokenSeq(vocab, slots))
}

// NameShapes are programs whose "?" slots are arbitrary tokens (names that may
// collide with generated subquery names, with each other or with the table).
var NameShapes = [][]string{
	{"T", "|", "as", "?", "|", "where", "a", "|", "where", "a"},
	{"T", "|", "where", "a", "|", "as", "?", "|", "where", "a", "|", "count"},
	{"?", "|", "where", "a", "|", "where", "a", "|", "as", "?"},
	{"T", "|", "join", "(", "?", "|", "as", "?", ")", "on", "a", "|", "where", "a"},
	{"T", "|", "as", "?", "|", "join", "(", "U", "|", "where", "a", ")", "on", "a"},
	{"T", "|", "project", "?", "|", "as", "?", "|", "take", "1", "|", "take", "1"},
	{"T", "|", "as", "?", "|", "as", "?", "|", "count"},
	{"T", "|", "where", "a", "|", "join", "(", "U", "|", "as", "?", "|", "as", "?", ")", "on", "a"},
}

// H_C05chain: a user-chosen name spelled like a generated one, followed by n further
// subqueries (n up to nmax): the generated names must stay unique however far the indexes run.
func H_C05chain(k, nmax int) {
	n := verif.Concrete(verif.IntRange(0, nmax+1))
	names := []string{"__subquery0", "__subquery1", "__subquery2", "__subquery1_", "__subquery12"}
	src := "T | as " + names[k]
	for i := 0; i < n; i++ {
		src += " | where a"
	}
	if verif.Bool() {
		src += " | as __subquery1"
	}
	verif.Obs("program", src)
	CheckCompiledStatement(src)
	verif.Cover("chain-checked")
}

// H_C05names checks the name-collision shapes.
func H_C05names(s int) {
	vocab := Vocab(5)
	shape := NameShapes[s]
	slots := make([]int, len(shape))
	for i, l := range shape {
		if l == "?" {
			slots[i] = -1
		} else if l == "U" {
			slots[i] = vocabIndex(vocab, "T")
		} else {
			slots[i] = vocabIndex(vocab, l)
		}
	}
	CheckCompiledStatement(verif.TokenSeq(vocab, slots))
}
