package h

import (
	"github.com/runreveal/pql"
	"github.com/runreveal/pql/parser"

	"verifh/verif"
)

// opTemplate is one tabular operator with the columns it needs and the schema it leaves.
type opTemplate struct {
	Text  string
	Needs []string
	Sets  []string    // new schema (nil: unchanged)
	Adds  []string    // columns appended
	Sort  []SortFlags // direction / null placement of the sort terms as written (documented defaults applied by hand)
}

var OpTemplates = []opTemplate{
	{Text: "where a > 1", Needs: []string{"a"}},
	{Text: "where isnull(b)", Needs: []string{"b"}},
	{Text: "where a == b", Needs: []string{"a", "b"}},
	{Text: "project x = a, b", Needs: []string{"a", "b"}, Sets: []string{"x", "b"}},
	{Text: "project b", Needs: []string{"b"}, Sets: []string{"b"}},
	{Text: "extend c = a + 1", Needs: []string{"a"}, Adds: []string{"c"}},
	{Text: "extend a + b", Needs: []string{"a", "b"}, Adds: []string{"?"}},
	{Text: "summarize n = count() by b", Needs: []string{"b"}, Sets: []string{"b", "n"}},
	{Text: "summarize m = max(a)", Needs: []string{"a"}, Sets: []string{"m"}},
	{Text: "sort by a", Needs: []string{"a"}, Sort: []SortFlags{{false, false}}},
	{Text: "sort by a asc, b nulls first", Needs: []string{"a", "b"}, Sort: []SortFlags{{true, true}, {false, true}}},
	{Text: "order by b desc nulls first", Needs: []string{"b"}, Sort: []SortFlags{{false, true}}},
	{Text: "take 1"},
	{Text: "limit 2"},
	{Text: "take 0"},
	{Text: "top 1 by a", Needs: []string{"a"}, Sort: []SortFlags{{false, false}}},
	{Text: "top 2 by b asc", Needs: []string{"b"}, Sort: []SortFlags{{true, true}}},
	{Text: "count", Sets: []string{"?"}},
	{Text: "as X"},
	{Text: "render k"},
	{Text: "render k with (p = 'v')"},
	{Text: "sort by b asc", Needs: []string{"b"}, Sort: []SortFlags{{true, true}}},
	{Text: "where b > 0 or isnull(a)", Needs: []string{"a", "b"}},
	{Text: "filter not(a > 1)", Needs: []string{"a"}},
	{Text: "summarize n = countif(a > 0), m = max(a) by b", Needs: []string{"a", "b"}, Sets: []string{"b", "n", "m"}},
	{Text: "sort by a asc nulls last", Needs: []string{"a"}, Sort: []SortFlags{{true, false}}},
	{Text: "top 2 by b desc nulls first", Needs: []string{"b"}, Sort: []SortFlags{{false, true}}},
	{Text: "top 1 by a asc nulls last", Needs: []string{"a"}, Sort: []SortFlags{{true, false}}},
	// 28-30: a second filter column, repeated sort keys
	{Text: "where b > 1", Needs: []string{"b"}},
	{Text: "sort by a asc, a desc", Needs: []string{"a"}, Sort: []SortFlags{{true, true}, {false, false}}},
	{Text: "sort by b desc nulls first, a, b asc", Needs: []string{"a", "b"}, Sort: []SortFlags{{false, true}, {false, false}, {true, true}}},
	{Text: "render k with (q = 'v', p = 1, a = 'w')"},
}

// mixTemplates are the operators of H_C02mix: filters on two columns, limits, sorts, top,
// projection, aggregation, extension, count, as.
var mixTemplates = []int{0, 28, 12, 13, 9, 21, 15, 4, 7, 5, 17, 18}

// H_C02mix: every sequence of l operators over mixTemplates on every table of r rows
// (filter / limit / filter, limit / sort / limit, ... need two or three rows to show).
func H_C02mix(l, r int) {
	src := "T"
	schema := []string{"a", "b"}
	var flags [][]SortFlags
	for i := 0; i < l; i++ {
		t := OpTemplates[mixTemplates[verif.Concrete(verif.IntRange(0, len(mixTemplates)))]]
		verif.Assume(hasAll(schema, t.Needs))
		if t.Sets != nil {
			schema = t.Sets
		}
		schema = append(append([]string{}, schema...), t.Adds...)
		src += " | " + t.Text
		flags = append(flags, t.Sort)
	}
	verif.Obs("program", src)
	CheckPipelineFlags(src, DB{"T": symbolicTable([]string{"a", "b"}, r)}, flags)
	verif.Cover("mix-checked")
}

func hasAll(schema, needs []string) bool {
	for _, n := range needs {
		if !containsStr(schema, n) {
			return false
		}
	}
	return true
}

// symbolicTable returns a table with the given columns and r rows of arbitrary nullable small integers.
func symbolicTable(cols []string, r int) *Table {
	t := &Table{Cols: cols}
	for range cols {
		t.Named = append(t.Named, true)
	}
	for i := 0; i < r; i++ {
		var row []Cell
		for range cols {
			c := Cell{V: verif.IntRange(0, 3)}
			if verif.Bool() {
				c = nullCell()
			}
			row = append(row, c)
		}
		t.Rows = append(t.Rows, row)
	}
	return t
}

// CompareTables asserts that got equals want: columns, stated names, rows in order.
func CompareTables(got, want *Table) {
	verif.Assert(len(got.Cols) == len(want.Cols), "the SQL result has a different number of columns than the pipeline's result")
	if len(got.Cols) != len(want.Cols) {
		return
	}
	for i := range want.Cols {
		if want.Named[i] {
			verif.Assert(got.Cols[i] == want.Cols[i], "a column of the SQL result has a different name or position than in the pipeline's result")
		}
	}
	verif.Assert(len(got.Rows) == len(want.Rows), "the SQL result has a different number of rows than applying the operators in order")
	if len(got.Rows) != len(want.Rows) {
		return
	}
	for i := range want.Rows {
		for j := range want.Rows[i] {
			verif.Assert(cellEq(got.Rows[i][j], want.Rows[i][j]), "the SQL result differs from applying the operators one after another (value or row order)")
		}
	}
}

// CheckPipeline compiles src and compares the SQL's result with the pipeline's on db.
func CheckPipeline(src string, db DB) {
	CheckPipelineFlags(src, db, nil)
}

// CheckPipelineFlags is CheckPipeline with the sort flags of operator i stated by flags[i] (nil: as parsed).
func CheckPipelineFlags(src string, db DB, flags [][]SortFlags) {
	stmts, perr := parser.Parse(src)
	sql, err := pql.Compile(src)
	verif.Assert(perr == nil && err == nil, "a well-formed pipeline does not compile")
	if perr != nil || err != nil {
		return
	}
	verif.Cover("compiled")
	st, msg := SQLParseStatement(SQLLex(sql, ClickHouse))
	verif.Assert(msg == "", "the emitted SQL does not parse: "+msg)
	if st == nil {
		return
	}
	var q *parser.TabularExpr
	for _, s := range stmts {
		if t, ok := s.(*parser.TabularExpr); ok {
			q = t
		}
	}
	for i, f := range flags {
		if f == nil || q == nil || i >= len(q.Operators) {
			continue
		}
		var terms []*parser.SortTerm
		switch op := q.Operators[i].(type) {
		case *parser.SortOperator:
			terms = op.Terms
		case *parser.TopOperator:
			terms = []*parser.SortTerm{op.Col}
		}
		verif.Assert(len(terms) == len(f), "a sort operator has a different number of terms than written")
		for k := range terms {
			if k < len(f) && terms[k] != nil {
				SortOverride[terms[k]] = f[k]
			}
		}
	}
	want, ok1 := PipeEval(q, db)
	got, ok2 := SQLEval(st, db)
	if !ok1 || !ok2 {
		verif.Cover("outside-evaluator-fragment")
		return
	}
	CompareTables(got, want)
	verif.Cover("results-compared")
	if len(want.Rows) > 0 {
		verif.Cover("non-empty-result")
	}
	if len(st.CTEs) > 0 {
		verif.Cover("with-ctes")
	}
}

// H_C02 checks every well-typed pipeline of l operator templates on every table of r rows.
func H_C02(l, r int) {
	schema := []string{"a", "b"}
	src := "T"
	var flags [][]SortFlags
	for i := 0; i < l; i++ {
		t := OpTemplates[verif.Concrete(verif.IntRange(0, len(OpTemplates)))]
		verif.Assume(hasAll(schema, t.Needs))
		if t.Sets != nil {
			schema = t.Sets
		}
		schema = append(append([]string{}, schema...), t.Adds...)
		src += " | " + t.Text
		flags = append(flags, t.Sort)
	}
	verif.Obs("program", src)
	db := DB{"T": symbolicTable([]string{"a", "b"}, r)}
	CheckPipelineFlags(src, db, flags)
}

// limitOps are row-limit operators with literals of different digit counts and spellings.
var limitOps = []string{"take 0", "take 1", "take 2", "take 3", "limit 10", "take 007", "top 2 by a", "top 10 by a", "limit 1",
	"take 18446744073709551616", "limit 4294967297", "take 9223372036854775808", "take 0x2"}
var limitValue = []int{0, 1, 2, 3, 10, 7, 2, 10, 1, 1 << 40, 1 << 40, 1 << 40, 2}

// H_C02limits: sequences of l row limits on every 3-row table; a limit never moves or merges wrongly.
func H_C02limits(l int) {
	src := "T"
	nops := len(limitOps)
	if l >= 3 {
		nops = 9 // the boundary literals (2^32+1, 2^63, 2^64, hexadecimal) take part in pairs only
	}
	for i := 0; i < l; i++ {
		src += " | " + limitOps[verif.Concrete(verif.IntRange(0, nops))]
	}
	verif.Obs("program", src)
	CheckPipeline(src, DB{"T": symbolicTable([]string{"a", "b"}, 3)})
}
