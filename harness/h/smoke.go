package h

import (
	"github.com/runreveal/pql/parser"

	"verifh/verif"
)

// H_Smoke scans n arbitrary bytes and checks span sanity.
func H_Smoke(n int) {
	src := verif.Bytes(n)
	toks := parser.Scan(src)
	prev := 0
	for _, t := range toks {
		verif.Assert(t.Span.Start >= prev, "tokens out of order")
		verif.Assert(t.Span.End <= len(src), "token outside source")
		prev = t.Span.End
	}
	if len(toks) > 0 {
		verif.Cover("has-token")
	}
}
