package h

import (
	"github.com/runreveal/pql"
	"github.com/runreveal/pql/parser"

	"verifh/verif"
)

// Let prefixes, use-site queries, suffixes and parameter maps of the C06 family.
var LetPrefixes = []string{
	"",
	"let n = 5; ",
	"let n = -5; ",
	"let n = 1 + 2; ",
	"let n = 5; let m = n * 2; ",
	"let n = 5; let n = n + 1; ",
	"let m = 's'; let n = strcat(m, 'x'); ",
	"let n = null; let m = -n; ",
	"let n = p; ",
	"let m = 1; let n = (m); ",
	"let n = 1; let m = n + 1; let n = m * n; ",
	"let k = 2; let m = k; let n = m - k; ",
	"let n = 1; let n = n + 1; let n = n + n; ",
	"let n = (-5); ",
	"let n = ((-5)); let m = ((n)); ",
	"let n = (+5); let m = (-n); ",
}

type useSite struct {
	Query string
	Pos   int      // expression position as in C01 (-1: structural check only)
	Table string   // expected FROM table of the (first) SELECT when set
	Alias string   // expected alias of the first non-star item when set
	Cols  []string // names the program writes quoted or qualified: they must reach the SQL as quoted identifiers
}

var UseSites = []useSite{
	{Query: "T | where a > n", Pos: 0},
	{Query: "T | where a * n > 1", Pos: 0},
	{Query: "T | where -n < a", Pos: 0},
	{Query: "T | where n[1] == a", Pos: 0},
	{Query: "T | where a[n] == 1", Pos: 0},
	{Query: "T | where a in (n, 2)", Pos: 0},
	{Query: "T | where f(n, a)", Pos: 0},
	{Query: "T | take n", Pos: 7},
	{Query: "T | top n by a", Pos: 9},
	{Query: "T | sort by n", Pos: 6},
	{Query: "T | join (U) on $left.a == n", Pos: 10},
	{Query: "T | join (U) on $left.b == $right.b + n", Pos: 10},
	{Query: "T | where `n` > 1", Pos: 0, Cols: []string{"n"}},
	{Query: "T | where a.n > n.a", Pos: 0, Cols: []string{"a", "n"}},
	{Query: "T | where n(1) > m(n)", Pos: 0},
	{Query: "n | where a > 1", Pos: 0, Table: "n"},
	{Query: "T | project n = a + n", Pos: 1, Alias: "n"},
	{Query: "T | summarize n = count() by a", Pos: -1, Alias: "a"},
	{Query: "T | where a > n and m == 's'", Pos: 0},
	{Query: "T | where not(n) or isnull(n) or n == n", Pos: 0},
	{Query: "T | extend n", Pos: 3},
	{Query: "T | where true == n and count > 1", Pos: 0},
	{Query: "T | where `true` == n and `null` > `false`", Pos: 0, Cols: []string{"true", "null", "false"}},
}

var LetSuffixes = []string{"", "; let n = 7", "; let z = n + k"}

func paramMap(sel int) map[string]string {
	switch sel {
	case 1:
		return map[string]string{"n": "$1"}
	case 2:
		return map[string]string{"p": "{p:UInt8}", "a": "?"}
	case 3:
		return map[string]string{"true": "$2", "count": "$3", "$left": "$4", "m": "$5"}
	}
	return nil
}

// CheckScoping is the C06 check for one program.
func CheckScoping(prefix, query, suffix string, site useSite, params map[string]string) {
	src := prefix + query + suffix
	stmts, perr := parser.Parse(src)
	if perr != nil {
		verif.Cover("not-parsed")
		return
	}
	opts := &pql.CompileOptions{Parameters: params}
	sql, err := opts.Compile(src)
	if BreaksRule(stmts, params) {
		verif.Cover("breaks-rule") // unbound name in a let value etc.: C13's subject
		return
	}
	verif.Assert(err == nil, "a program that keeps the scoping rules does not compile")
	if err != nil {
		return
	}
	verif.Cover("compiled")

	// reference environment: parameters, overlaid by the lets before the query in order
	env := Scope{}
	for k, v := range params {
		env[k] = verif.VConst("param:" + v)
	}
	var q *parser.TabularExpr
	qi := -1
	for i, st := range stmts {
		switch st := st.(type) {
		case *parser.LetStatement:
			if q == nil {
				env[st.Name.Name] = PQLVal(st.X, env)
			}
		case *parser.TabularExpr:
			q = st
			qi = i
		}
	}
	st, msg := SQLParseStatement(SQLLex(sql, ClickHouse))
	verif.Assert(msg == "", "the emitted SQL does not parse: "+msg)
	if st == nil {
		return
	}
	first := st.Sel
	if len(st.CTEs) > 0 {
		first = st.CTEs[0].Sel
	}
	if site.Table != "" {
		verif.Assert(first.From.Table == site.Table, "a table name was substituted by a binding")
	}
	if site.Alias != "" {
		found := false
		for _, it := range st.Sel.Items {
			if !it.Star && it.Alias == site.Alias {
				found = true
			}
		}
		verif.Assert(found, "a column alias was substituted by a binding")
	}
	for _, name := range site.Cols {
		found := false
		for _, t := range SQLLex(sql, ClickHouse) {
			if t.Kind == SQLQIdent && t.Val == name {
				found = true
			}
		}
		verif.Assert(found, "a quoted or qualified name was substituted by a binding")
	}
	if site.Pos >= 0 {
		x := pqlExprAt([]parser.Statement{q}, site.Pos)
		y := sqlExprAt(st, site.Pos)
		verif.Assert(x != nil && y != nil, "use site not found in the output")
		if x == nil || y == nil {
			return
		}
		want := PQLVal(x, env)
		got := SQLVal(y, nil)
		if site.Pos == 10 {
			verif.AssertValid(verif.FIff(verif.FTruth(want), verif.FTruth(got)), "a binding used in a join condition does not denote its value")
		} else {
			verif.AssertValid(verif.FEq(want, got), "a name bound by let or parameter does not denote that binding's value as one operand")
		}
		verif.Cover("meaning-checked")
	}

	// lets after the query have no effect; unused bindings do not change the output
	if suffix != "" {
		sql2, err2 := opts.Compile(prefix + query)
		verif.Assert(err2 == nil && sql2 == sql, "a let statement after the query changes the output")
		verif.Cover("suffix-checked")
	}
	_ = qi
	sql3, err3 := opts.Compile("let unused_ = 42; " + src)
	verif.Assert(err3 == nil && sql3 == sql, "an unused binding changes the output")
	if params == nil {
		sql4, err4 := (&pql.CompileOptions{Parameters: map[string]string{"unused_": "$9"}}).Compile(src)
		verif.Assert(err4 == nil && sql4 == sql, "an unused parameter changes the output")
	}
}

// H_C06 checks one use site against every let prefix, suffix and parameter map (selectors).
func H_C06(site int) {
	pi := verif.Concrete(verif.IntRange(0, len(LetPrefixes)))
	si := verif.Concrete(verif.IntRange(0, len(LetSuffixes)))
	mi := verif.Concrete(verif.IntRange(0, 4))
	CheckScoping(LetPrefixes[pi], UseSites[site].Query, LetSuffixes[si], UseSites[site], paramMap(mi))
}

// OpShapes are let/use programs whose "?" slots are arbitrary binary operators.
var OpShapes = []string{
	"let U = 1 ? 2.5 ; T | where a ? U ? b",
	"let U = - 1 ; T | where - U ? a [ U ]",
	"let U = 1 ? 2.5 ; T | where U [ 1 ] ? - U",
	"let U = 1 ; let b = U ? 2.5 ; T | where a ? b",
	"let U = 's' ? 1 ; T | where f ( U , a ? U ) ? U in ( U , 1 )",
	"let U = 1 ? 2.5 ; T | take U",
	"let U = 1 ? 2.5 ; T | join ( T ) on $left . a ? U",
}

// H_C06ops: the substituted value acts as one operand whatever operators surround it.
func H_C06ops(s int) {
	vocab := Vocab(0)
	var slots []int
	var ops []int
	for _, w := range splitWords(OpShapes[s]) {
		if w == "?" {
			ops = append(ops, len(slots))
			slots = append(slots, -1)
		} else {
			slots = append(slots, vocabIndex(vocab, w))
		}
	}
	src := verif.TokenSeq(vocab, slots)
	toks := parser.Scan(src)
	for _, p := range ops {
		verif.Assume(isBinaryOpKind(toks[p].Kind))
	}
	stmts, perr := parser.Parse(src)
	if perr != nil {
		verif.Cover("not-parsed")
		return
	}
	sql, err := pql.Compile(src)
	if err != nil {
		verif.Cover("compile-error")
		return
	}
	verif.Cover("compiled")
	env := Scope{}
	var q *parser.TabularExpr
	for _, st := range stmts {
		switch st := st.(type) {
		case *parser.LetStatement:
			if q == nil {
				env[st.Name.Name] = PQLVal(st.X, env)
			}
		case *parser.TabularExpr:
			q = st
		}
	}
	st, msg := SQLParseStatement(SQLLex(sql, ClickHouse))
	verif.Assert(msg == "", "the emitted SQL does not parse: "+msg)
	if st == nil || q == nil || len(q.Operators) != 1 {
		return
	}
	pos := 0
	switch q.Operators[0].(type) {
	case *parser.TakeOperator:
		pos = 7
	case *parser.JoinOperator:
		pos = 10
	}
	x := pqlExprAt([]parser.Statement{q}, pos)
	y := sqlExprAt(st, pos)
	verif.Assert(x != nil && y != nil, "use site not found in the output")
	if x == nil || y == nil {
		return
	}
	want, got := PQLVal(x, env), SQLVal(y, nil)
	if pos == 10 {
		verif.AssertValid(verif.FIff(verif.FTruth(want), verif.FTruth(got)), "a binding used in a join condition does not denote its value")
	} else {
		verif.AssertValid(verif.FEq(want, got), "a name bound by let does not denote that binding's value as one operand")
	}
	verif.Cover("meaning-checked")
}
