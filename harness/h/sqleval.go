package h

// Reference evaluator for the emitted SQL with ordered-list semantics:
// FROM -> JOIN -> WHERE -> GROUP BY -> select list -> DISTINCT -> ORDER BY
// (stable) -> LIMIT; a CTE or sub-select delivers its rows in its own order;
// * expands to the source's columns, left side then right side.

type sqlCol struct {
	qual string
	name string
}

type sqlRowEnv struct {
	cols []sqlCol
	row  []Cell
	// output columns of the current select (for ORDER BY)
	outCols []string
	outRow  []Cell
}

func (e *sqlRowEnv) lookup(parts []string) (Cell, bool) {
	if len(parts) == 1 {
		for i := len(e.outCols) - 1; i >= 0; i-- {
			if e.outCols[i] == parts[0] {
				return e.outRow[i], true
			}
		}
		for i := len(e.cols) - 1; i >= 0; i-- {
			if e.cols[i].name == parts[0] {
				return e.row[i], true
			}
		}
		return Cell{}, false
	}
	if len(parts) == 2 {
		for i := len(e.cols) - 1; i >= 0; i-- {
			if e.cols[i].qual == parts[0] && e.cols[i].name == parts[1] {
				return e.row[i], true
			}
		}
	}
	return Cell{}, false
}

func isAggregate(n *SQLNode) bool {
	if n == nil {
		return false
	}
	if n.Op == "call" {
		switch n.Text {
		case "count", "COUNT", "max", "sum":
			return true
		}
	}
	for _, k := range n.Kids {
		if isAggregate(k) {
			return true
		}
	}
	return false
}

// sqlScalar evaluates a scalar SQL expression on one row.
func sqlScalar(n *SQLNode, e *sqlRowEnv) (Cell, bool) {
	switch n.Op {
	case "num":
		v, ok := litInt(n.Text)
		return intCell(v), ok
	case "str":
		return strCell(n.Text), true
	case "true":
		return boolCell(true), true
	case "false":
		return boolCell(false), true
	case "null":
		return nullCell(), true
	case "col":
		return e.lookup(n.Parts)
	case "neg":
		v, ok := sqlScalar(n.Kids[0], e)
		if !ok || v.Null {
			return v, ok
		}
		return intCell(-v.V), true
	case "pos":
		return sqlScalar(n.Kids[0], e)
	case "not":
		v, ok := sqlScalar(n.Kids[0], e)
		if !ok || v.Null {
			return v, ok
		}
		return boolCell(v.V == 0), true
	case "isnull":
		v, ok := sqlScalar(n.Kids[0], e)
		return boolCell(v.Null), ok
	case "isnotnull":
		v, ok := sqlScalar(n.Kids[0], e)
		return boolCell(!v.Null), ok
	case "case":
		c, ok := sqlScalar(n.Kids[0], e)
		if !ok {
			return c, false
		}
		if c.truth() {
			return sqlScalar(n.Kids[1], e)
		}
		return sqlScalar(n.Kids[2], e)
	case "bin":
		a, ok1 := sqlScalar(n.Kids[0], e)
		b, ok2 := sqlScalar(n.Kids[1], e)
		if !ok1 || !ok2 {
			return Cell{}, false
		}
		name, ok := sqlBinNames[n.Text]
		if !ok || name == "concat" || name == "like" || name == "div" || name == "mod" {
			return Cell{}, false
		}
		return cellBin(name, a, b), true
	case "call":
		if n.Text == "coalesce" && len(n.Kids) == 2 {
			a, ok := sqlScalar(n.Kids[0], e)
			if !ok {
				return a, false
			}
			if !a.Null {
				return a, true
			}
			return sqlScalar(n.Kids[1], e)
		}
	}
	return Cell{}, false
}

// sqlAggregate evaluates an item of a grouped select for one group.
func sqlAggregate(n *SQLNode, cols []sqlCol, rows [][]Cell, group []int) (Cell, bool) {
	if n.Op == "call" {
		switch n.Text {
		case "count", "COUNT":
			if len(n.Kids) == 0 || (len(n.Kids) == 1 && n.Kids[0].Op == "star") {
				if n.Filter == nil {
					return intCell(len(group)), true
				}
				c := 0
				for _, i := range group {
					v, ok := sqlScalar(n.Filter, &sqlRowEnv{cols: cols, row: rows[i]})
					if !ok {
						return Cell{}, false
					}
					if v.truth() {
						c++
					}
				}
				return intCell(c), true
			}
		case "max", "sum":
			if len(n.Kids) == 1 && n.Filter == nil {
				vals := make([]Cell, len(rows))
				for _, i := range group {
					v, ok := sqlScalar(n.Kids[0], &sqlRowEnv{cols: cols, row: rows[i]})
					if !ok {
						return Cell{}, false
					}
					vals[i] = v
				}
				if n.Text == "max" {
					return aggMax(vals, group), true
				}
				return aggSum(vals, group), true
			}
		}
	}
	if len(group) == 0 {
		return nullCell(), true
	}
	return sqlScalar(n, &sqlRowEnv{cols: cols, row: rows[group[0]]})
}

type sqlEnv struct {
	db   DB
	ctes map[string]*Table
}

func (env *sqlEnv) source(s SQLSource) (*Table, bool) {
	if s.Sub != nil {
		return env.sel(s.Sub)
	}
	if t, ok := env.ctes[s.Table]; ok {
		return t, true
	}
	t, ok := env.db[s.Table]
	return t, ok
}

func qualified(t *Table, alias string) []sqlCol {
	cols := make([]sqlCol, len(t.Cols))
	for i, c := range t.Cols {
		cols[i] = sqlCol{qual: alias, name: c}
	}
	return cols
}

func (env *sqlEnv) sel(s *SQLSelect) (*Table, bool) {
	from, ok := env.source(s.From)
	if !ok {
		return nil, false
	}
	cols := qualified(from, s.From.Alias)
	named := append([]bool{}, from.Named...)
	rows := from.Rows
	if s.HasJoin {
		right, ok := env.source(s.Join)
		if !ok {
			return nil, false
		}
		rcols := qualified(right, s.Join.Alias)
		all := append(append([]sqlCol{}, cols...), rcols...)
		var joined [][]Cell
		for _, lr := range rows {
			matched := false
			for _, rr := range right.Rows {
				row := append(copyRow(lr), rr...)
				v, ok := sqlScalar(s.On, &sqlRowEnv{cols: all, row: row})
				if !ok {
					return nil, false
				}
				if v.truth() {
					matched = true
					joined = append(joined, row)
				}
			}
			if !matched && s.LeftJoin {
				row := copyRow(lr)
				for range rcols {
					row = append(row, nullCell())
				}
				joined = append(joined, row)
			}
		}
		cols = all
		named = append(named, right.Named...)
		rows = joined
	}
	if s.Where != nil {
		var kept [][]Cell
		for _, r := range rows {
			v, ok := sqlScalar(s.Where, &sqlRowEnv{cols: cols, row: r})
			if !ok {
				return nil, false
			}
			if v.truth() {
				kept = append(kept, r)
			}
		}
		rows = kept
	}
	out := &Table{}
	grouped := len(s.GroupBy) > 0
	for _, it := range s.Items {
		if !it.Star && isAggregate(it.X) {
			grouped = true
		}
	}
	// output schema
	for _, it := range s.Items {
		if it.Star {
			for i, c := range cols {
				out.Cols = append(out.Cols, c.name)
				out.Named = append(out.Named, named[i])
			}
		} else {
			out.Cols = append(out.Cols, it.Alias)
			out.Named = append(out.Named, it.Alias != "")
		}
	}
	var srcRowOf [][]Cell // source row behind each output row (for ORDER BY on source columns)
	if grouped {
		var keyVals [][]Cell
		for _, g := range s.GroupBy {
			vals := make([]Cell, len(rows))
			for i, r := range rows {
				v, ok := sqlScalar(g, &sqlRowEnv{cols: cols, row: r})
				if !ok {
					return nil, false
				}
				vals[i] = v
			}
			keyVals = append(keyVals, vals)
		}
		var groups [][]int
		if len(s.GroupBy) == 0 {
			all := make([]int, len(rows))
			for i := range all {
				all[i] = i
			}
			groups = [][]int{all}
		} else {
			groups = groupRows(len(rows), keyVals)
		}
		for _, g := range groups {
			var nr []Cell
			for _, it := range s.Items {
				if it.Star {
					return nil, false
				}
				v, ok := sqlAggregate(it.X, cols, rows, g)
				if !ok {
					return nil, false
				}
				nr = append(nr, v)
			}
			out.Rows = append(out.Rows, nr)
			if len(g) > 0 {
				srcRowOf = append(srcRowOf, rows[g[0]])
			} else {
				srcRowOf = append(srcRowOf, make([]Cell, len(cols)))
			}
		}
	} else {
		for _, r := range rows {
			var nr []Cell
			for _, it := range s.Items {
				if it.Star {
					nr = append(nr, r...)
					continue
				}
				v, ok := sqlScalar(it.X, &sqlRowEnv{cols: cols, row: r})
				if !ok {
					return nil, false
				}
				nr = append(nr, v)
			}
			out.Rows = append(out.Rows, nr)
			srcRowOf = append(srcRowOf, r)
		}
	}
	if s.Distinct {
		out.Rows = dedupRows(out.Rows)
		srcRowOf = nil
	}
	if len(s.OrderBy) > 0 {
		var keys []sortKey
		for _, o := range s.OrderBy {
			// defaults of the SQL dialect when not written: ASC, NULLS LAST
			k := sortKey{desc: o.Desc, nullsFirst: o.NullsFirst}
			for i, r := range out.Rows {
				env := &sqlRowEnv{outCols: out.Cols, outRow: r}
				if srcRowOf != nil {
					env.cols, env.row = cols, srcRowOf[i]
				}
				v, ok := sqlScalar(o.X, env)
				if !ok {
					return nil, false
				}
				k.vals = append(k.vals, v)
			}
			keys = append(keys, k)
		}
		order := stableSort(len(out.Rows), keys)
		sorted := make([][]Cell, len(order))
		for i, j := range order {
			sorted[i] = out.Rows[j]
		}
		out.Rows = sorted
	}
	if s.Limit != nil {
		v, ok := sqlScalar(s.Limit, &sqlRowEnv{})
		if !ok || v.Null || v.V < 0 {
			return nil, false
		}
		if v.V < len(out.Rows) {
			out.Rows = out.Rows[:v.V]
		}
	}
	return out, true
}

// SQLEval evaluates a parsed statement on db.
func SQLEval(st *SQLStmt, db DB) (*Table, bool) {
	env := &sqlEnv{db: db, ctes: map[string]*Table{}}
	for _, c := range st.CTEs {
		t, ok := env.sel(c.Sel)
		if !ok {
			return nil, false
		}
		env.ctes[c.Name] = t
	}
	return env.sel(st.Sel)
}
