package h

// Reference interpreter of PQL pipelines: applies the tabular operators one
// after another, left to right, with the semantics stated in C02/C03.

import (
	"github.com/runreveal/pql/parser"
)

// rowEnv resolves column names (and join aliases) for one row.
type rowEnv struct {
	t     *Table
	row   []Cell
	left  *Table // for join conditions: $left / $right
	lrow  []Cell
	right *Table
	rrow  []Cell
}

func (e *rowEnv) column(parts []*parser.Ident) (Cell, bool) {
	if len(parts) == 1 {
		if e.t == nil {
			return Cell{}, false
		}
		i := e.t.colIndex(parts[0].Name)
		if i < 0 {
			return Cell{}, false
		}
		return e.row[i], true
	}
	if len(parts) == 2 && e.left != nil {
		switch parts[0].Name {
		case "$left":
			if i := e.left.colIndex(parts[1].Name); i >= 0 {
				return e.lrow[i], true
			}
		case "$right":
			if i := e.right.colIndex(parts[1].Name); i >= 0 {
				return e.rrow[i], true
			}
		}
	}
	return Cell{}, false
}

// pqlScalar evaluates a PQL scalar expression of the interpreted fragment on one row.
// ok=false: outside the fragment (the harness only generates programs inside it).
func pqlScalar(x parser.Expr, e *rowEnv) (Cell, bool) {
	switch x := x.(type) {
	case *parser.ParenExpr:
		return pqlScalar(x.X, e)
	case *parser.BasicLit:
		if x.Kind == parser.TokenNumber {
			n, ok := litInt(x.Value)
			return intCell(n), ok
		}
		return strCell(x.Value), true
	case *parser.QualifiedIdent:
		if len(x.Parts) == 1 && !x.Parts[0].Quoted {
			switch x.Parts[0].Name {
			case "true":
				return boolCell(true), true
			case "false":
				return boolCell(false), true
			case "null":
				return nullCell(), true
			}
		}
		return e.column(x.Parts)
	case *parser.UnaryExpr:
		v, ok := pqlScalar(x.X, e)
		if !ok || v.Null {
			return v, ok
		}
		if x.Op == parser.TokenMinus {
			return intCell(-v.V), true
		}
		return v, true
	case *parser.BinaryExpr:
		a, ok1 := pqlScalar(x.X, e)
		b, ok2 := pqlScalar(x.Y, e)
		if !ok1 || !ok2 {
			return Cell{}, false
		}
		switch x.Op {
		case parser.TokenEq:
			// == never yields NULL
			if a.Null || b.Null {
				return boolCell(false), true
			}
			return boolCell(cellEq(a, b)), true
		case parser.TokenNE:
			if a.Null || b.Null {
				return boolCell(false), true
			}
			return boolCell(!cellEq(a, b)), true
		}
		name, ok := relBinNames[x.Op]
		if !ok {
			return Cell{}, false
		}
		return cellBin(name, a, b), true
	case *parser.CallExpr:
		switch x.Func.Name {
		case "isnull":
			if len(x.Args) == 1 {
				v, ok := pqlScalar(x.Args[0], e)
				return boolCell(v.Null), ok
			}
		case "isnotnull":
			if len(x.Args) == 1 {
				v, ok := pqlScalar(x.Args[0], e)
				return boolCell(!v.Null), ok
			}
		case "not":
			if len(x.Args) == 1 {
				v, ok := pqlScalar(x.Args[0], e)
				if v.Null {
					return v, ok
				}
				return boolCell(v.V == 0), ok
			}
		case "iff", "iif":
			if len(x.Args) == 3 {
				c, ok := pqlScalar(x.Args[0], e)
				if !ok {
					return c, false
				}
				if c.truth() {
					return pqlScalar(x.Args[1], e)
				}
				return pqlScalar(x.Args[2], e)
			}
		}
	}
	return Cell{}, false
}

// SortFlags states the direction and null placement of one sort term as written in the program text.
type SortFlags struct{ Asc, NullsFirst bool }

// SortOverride lets a harness that knows the program text state the flags of a
// sort term independently of what the parser recorded (so that C02 does not
// inherit a parser mistake about defaults).
var SortOverride = map[*parser.SortTerm]SortFlags{}

func pqlSortKey(t *Table, term *parser.SortTerm) (sortKey, bool) {
	k := sortKey{desc: !term.Asc, nullsFirst: term.NullsFirst}
	if f, ok := SortOverride[term]; ok {
		k = sortKey{desc: !f.Asc, nullsFirst: f.NullsFirst}
	}
	for _, r := range t.Rows {
		v, ok := pqlScalar(term.X, &rowEnv{t: t, row: r})
		if !ok {
			return k, false
		}
		k.vals = append(k.vals, v)
	}
	return k, true
}

// pqlAggregate evaluates an aggregate (or group-key expression) for one group.
func pqlAggregate(x parser.Expr, t *Table, rows []int) (Cell, bool) {
	if call, ok := x.(*parser.CallExpr); ok {
		switch call.Func.Name {
		case "count":
			if len(call.Args) == 0 {
				return intCell(len(rows)), true
			}
		case "countif":
			if len(call.Args) == 1 {
				n := 0
				for _, i := range rows {
					v, ok := pqlScalar(call.Args[0], &rowEnv{t: t, row: t.Rows[i]})
					if !ok {
						return Cell{}, false
					}
					if v.truth() {
						n++
					}
				}
				return intCell(n), true
			}
		case "max", "sum":
			if len(call.Args) == 1 {
				vals := make([]Cell, len(t.Rows))
				for _, i := range rows {
					v, ok := pqlScalar(call.Args[0], &rowEnv{t: t, row: t.Rows[i]})
					if !ok {
						return Cell{}, false
					}
					vals[i] = v
				}
				if call.Func.Name == "max" {
					return aggMax(vals, rows), true
				}
				return aggSum(vals, rows), true
			}
		}
	}
	// a group key: the same for every row of the group
	if len(rows) == 0 {
		return nullCell(), true
	}
	return pqlScalar(x, &rowEnv{t: t, row: t.Rows[rows[0]]})
}

func rowCountOf(x parser.Expr) (int, bool) {
	v, ok := pqlScalar(x, &rowEnv{})
	if !ok || v.Null || v.IsS {
		return 0, false
	}
	return v.V, true
}

// PipeEval applies the operators of x to db, left to right. ok=false if a
// construct is outside the interpreted fragment.
func PipeEval(x *parser.TabularExpr, db DB) (*Table, bool) {
	ref, isRef := x.Source.(*parser.TableRef)
	if !isRef {
		return nil, false
	}
	src, found := db[ref.Table.Name]
	if !found {
		return nil, false
	}
	t := &Table{Cols: src.Cols, Named: src.Named, Rows: src.Rows}
	for _, op := range x.Operators {
		switch op := op.(type) {
		case *parser.WhereOperator:
			nt := &Table{Cols: t.Cols, Named: t.Named}
			for _, r := range t.Rows {
				v, ok := pqlScalar(op.Predicate, &rowEnv{t: t, row: r})
				if !ok {
					return nil, false
				}
				if v.truth() {
					nt.Rows = append(nt.Rows, r)
				}
			}
			t = nt
		case *parser.ProjectOperator:
			nt := &Table{}
			for _, c := range op.Cols {
				nt.Cols = append(nt.Cols, c.Name.Name)
				nt.Named = append(nt.Named, true)
			}
			for _, r := range t.Rows {
				var nr []Cell
				for _, c := range op.Cols {
					var x parser.Expr = c.X
					if x == nil {
						x = c.Name.AsQualified()
					}
					v, ok := pqlScalar(x, &rowEnv{t: t, row: r})
					if !ok {
						return nil, false
					}
					nr = append(nr, v)
				}
				nt.Rows = append(nt.Rows, nr)
			}
			t = nt
		case *parser.ExtendOperator:
			nt := &Table{Cols: append([]string{}, t.Cols...), Named: append([]bool{}, t.Named...)}
			for _, c := range op.Cols {
				if c.Name != nil {
					nt.Cols = append(nt.Cols, c.Name.Name)
					nt.Named = append(nt.Named, true)
				} else {
					nt.Cols = append(nt.Cols, "")
					nt.Named = append(nt.Named, false)
				}
			}
			for _, r := range t.Rows {
				nr := copyRow(r)
				for _, c := range op.Cols {
					v, ok := pqlScalar(c.X, &rowEnv{t: t, row: r})
					if !ok {
						return nil, false
					}
					nr = append(nr, v)
				}
				nt.Rows = append(nt.Rows, nr)
			}
			t = nt
		case *parser.SummarizeOperator:
			nt := &Table{}
			var keyVals [][]Cell
			for _, g := range op.GroupBy {
				vals := make([]Cell, len(t.Rows))
				for i, r := range t.Rows {
					v, ok := pqlScalar(g.X, &rowEnv{t: t, row: r})
					if !ok {
						return nil, false
					}
					vals[i] = v
				}
				keyVals = append(keyVals, vals)
			}
			// group keys come before aggregates
			for _, g := range op.GroupBy {
				name, named := "", false
				if g.Name != nil {
					name, named = g.Name.Name, true
				} else if q, isCol := g.X.(*parser.QualifiedIdent); isCol && len(q.Parts) == 1 {
					name, named = q.Parts[0].Name, true
				}
				nt.Cols = append(nt.Cols, name)
				nt.Named = append(nt.Named, named)
			}
			for _, c := range op.Cols {
				name, named := "", false
				if c.Name != nil {
					name, named = c.Name.Name, true
				}
				nt.Cols = append(nt.Cols, name)
				nt.Named = append(nt.Named, named)
			}
			var groups [][]int
			if len(op.GroupBy) == 0 {
				all := make([]int, len(t.Rows))
				for i := range all {
					all[i] = i
				}
				groups = [][]int{all} // aggregation without keys yields one row, even of an empty table
			} else {
				groups = groupRows(len(t.Rows), keyVals)
			}
			for _, g := range groups {
				var nr []Cell
				for k := range op.GroupBy {
					if len(g) > 0 {
						nr = append(nr, keyVals[k][g[0]])
					} else {
						nr = append(nr, nullCell())
					}
				}
				for _, c := range op.Cols {
					v, ok := pqlAggregate(c.X, t, g)
					if !ok {
						return nil, false
					}
					nr = append(nr, v)
				}
				nt.Rows = append(nt.Rows, nr)
			}
			t = nt
		case *parser.SortOperator:
			var keys []sortKey
			for _, term := range op.Terms {
				k, ok := pqlSortKey(t, term)
				if !ok {
					return nil, false
				}
				keys = append(keys, k)
			}
			order := stableSort(len(t.Rows), keys)
			nt := &Table{Cols: t.Cols, Named: t.Named}
			for _, i := range order {
				nt.Rows = append(nt.Rows, t.Rows[i])
			}
			t = nt
		case *parser.TakeOperator:
			n, ok := rowCountOf(op.RowCount)
			if !ok || n < 0 {
				return nil, false
			}
			nt := &Table{Cols: t.Cols, Named: t.Named}
			for i := 0; i < len(t.Rows) && i < n; i++ {
				nt.Rows = append(nt.Rows, t.Rows[i])
			}
			t = nt
		case *parser.TopOperator:
			// top N by k = sort by k, then take N
			k, ok := pqlSortKey(t, op.Col)
			n, ok2 := rowCountOf(op.RowCount)
			if !ok || !ok2 || n < 0 {
				return nil, false
			}
			order := stableSort(len(t.Rows), []sortKey{k})
			nt := &Table{Cols: t.Cols, Named: t.Named}
			for i := 0; i < len(order) && i < n; i++ {
				nt.Rows = append(nt.Rows, t.Rows[order[i]])
			}
			t = nt
		case *parser.CountOperator:
			t = &Table{Cols: []string{""}, Named: []bool{false}, Rows: [][]Cell{{intCell(len(t.Rows))}}}
		case *parser.AsOperator:
			// names the intermediate result; rows unchanged
		case *parser.RenderOperator:
			nt := &Table{Cols: append([]string{}, t.Cols...), Named: append([]bool{}, t.Named...)}
			nt.Cols = append(nt.Cols, "render_type")
			nt.Named = append(nt.Named, true)
			extra := []Cell{strCell(op.ChartType.Name)}
			for _, p := range op.Props {
				nt.Cols = append(nt.Cols, "render_prop_"+p.Name.Name)
				nt.Named = append(nt.Named, true)
				switch v := p.Value.(type) {
				case *parser.BasicLit:
					extra = append(extra, strCell(v.Value))
				case *parser.QualifiedIdent:
					extra = append(extra, strCell(v.Parts[0].Name))
				default:
					return nil, false
				}
			}
			for _, r := range t.Rows {
				nt.Rows = append(nt.Rows, append(copyRow(r), extra...))
			}
			t = nt
		case *parser.JoinOperator:
			right, ok := PipeEval(op.Right, db)
			if !ok {
				return nil, false
			}
			jt, ok := refJoin(t, right, op)
			if !ok {
				return nil, false
			}
			t = jt
		default:
			return nil, false
		}
	}
	return t, true
}

// refJoin is the reference join: inner keeps every matching pair in left-major
// order, innerunique (the default) first removes duplicate left rows,
// leftouter also keeps unmatched left rows with NULL-filled right columns.
func refJoin(left, right *Table, op *parser.JoinOperator) (*Table, bool) {
	flavor := "innerunique"
	if op.Flavor != nil {
		flavor = op.Flavor.Name
	}
	lrows := left.Rows
	if flavor == "innerunique" {
		lrows = dedupRows(lrows)
	}
	nt := &Table{Cols: append(append([]string{}, left.Cols...), right.Cols...), Named: append(append([]bool{}, left.Named...), right.Named...)}
	for _, lr := range lrows {
		matched := false
		for _, rr := range right.Rows {
			all := true
			for _, cond := range op.Conditions {
				v, ok := joinCond(cond, left, lr, right, rr)
				if !ok {
					return nil, false
				}
				if !v {
					all = false
				}
			}
			if all {
				matched = true
				nt.Rows = append(nt.Rows, append(copyRow(lr), rr...))
			}
		}
		if !matched && flavor == "leftouter" {
			fill := make([]Cell, len(right.Cols))
			for i := range fill {
				fill[i] = nullCell()
			}
			nt.Rows = append(nt.Rows, append(copyRow(lr), fill...))
		}
	}
	return nt, true
}

// joinCond: a bare column name k means $left.k == $right.k.
func joinCond(cond parser.Expr, left *Table, lr []Cell, right *Table, rr []Cell) (bool, bool) {
	if q, ok := cond.(*parser.QualifiedIdent); ok && len(q.Parts) == 1 && !q.Parts[0].Quoted {
		name := q.Parts[0].Name
		if name != "true" && name != "false" && name != "null" {
			li, ri := left.colIndex(name), right.colIndex(name)
			if li < 0 || ri < 0 {
				return false, false
			}
			a, b := lr[li], rr[ri]
			return !a.Null && !b.Null && cellEq(a, b), true
		}
	}
	v, ok := pqlScalar(cond, &rowEnv{left: left, lrow: lr, right: right, rrow: rr})
	return v.truth(), ok
}
