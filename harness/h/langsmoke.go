package h

// H_Lang exercises language features (SSA instruction kinds) on symbolic
// values; engine vs native observations are compared by `check SELFLIB quick`.

import (
	"errors"
	"fmt"
	"maps"
	"slices"
	"sort"
	"strconv"
	"strings"
	"sync"
	"sync/atomic"

	"verifh/verif"
)

type langShape interface {
	Area() int
	Name() string
}
type langSq struct{ s int }
type langRect struct {
	langSq
	w int
}

func (q langSq) Area() int    { return q.s * q.s }
func (q langSq) Name() string { return "sq" }
func (r *langRect) Area() int { return r.s * r.w }
func langMap[T any, U any](xs []T, f func(T) U) []U {
	var out []U
	for _, x := range xs {
		out = append(out, f(x))
	}
	return out
}

type langNum interface{ ~int | ~uint8 }

func langSum[T langNum](xs ...T) (t T) {
	for _, x := range xs {
		t += x
	}
	return
}

type langErr struct{ code int }

func (e *langErr) Error() string { return fmt.Sprintf("code %d", e.code) }

func langRecover(n int) (r string) {
	defer func() {
		if p := recover(); p != nil {
			r = fmt.Sprint("recovered:", p)
		}
	}()
	var a [3]int
	a[n] = 1
	return "fine"
}

// LangCases is the number of cases of H_Lang.
const LangCases = 30

func H_Lang(k int) {
	x := verif.IntRange(0, 5)
	b := verif.Byte()
	switch k {
	case 0:
		var s langShape = langSq{x}
		if x > 2 {
			s = &langRect{langSq{x}, 2}
		}
		verif.ObsInt("r", s.Area())
		verif.Obs("n", s.Name())
	case 1:
		verif.Obs("r", strings.Join(langMap([]int{x, x + 1}, func(i int) string { return fmt.Sprint(i * 2) }), ","))
	case 2:
		verif.ObsInt("r", langSum(x, 2, 3)+int(langSum(b&3, 1)))
	case 3:
		verif.Obs("r", langRecover(x))
	case 4:
		var err error = &langErr{x}
		err = fmt.Errorf("wrap: %w", err)
		var le *langErr
		if errors.As(err, &le) && le.code > 3 {
			verif.Obs("r", "big "+err.Error())
		} else {
			verif.Obs("r", "small")
		}
	case 5:
		m := map[string]int{"a": x, "b": 2}
		m["c"] = m["a"] + 1
		delete(m, "b")
		v, ok := m["b"]
		keys := make([]string, 0)
		for k := range m {
			keys = append(keys, k)
		}
		sort.Strings(keys)
		verif.Obs("r", fmt.Sprint(keys, v, ok, len(m), m["c"]))
	case 6:
		var i any = x
		if x > 3 {
			i = "str"
		}
		switch v := i.(type) {
		case int:
			verif.ObsInt("r", v+1)
		case string:
			verif.Obs("r", v)
		}
		_, isErr := i.(error)
		verif.Obs("e", fmt.Sprint(isErr))
	case 7:
		r := 0
	outer:
		for i := 0; i < 4; i++ {
			for j := 0; j < 4; j++ {
				if i*j > x {
					break outer
				}
				if j > i {
					continue outer
				}
				r += i + j
			}
		}
		verif.ObsInt("r", r)
	case 8:
		a := [4]int{1, 2, 3, 4}
		s := a[1:3:4]
		s = append(s, x)
		s = append(s, 9)
		c := make([]int, 2)
		n := copy(c, s)
		verif.Obs("r", fmt.Sprint(a, s, c, n, len(s), cap(s) >= 4))
	case 9:
		f := func(d int) func() int { return func() int { x += d; return x } }
		g := f(2)
		g()
		verif.ObsInt("r", g())
	case 10:
		verif.ObsInt("r", min(x, 3)+max(x, 2, 4))
	case 11:
		m := map[int]bool{1: true, x: true}
		clear(m)
		s := []int{x, 1}
		clear(s)
		verif.Obs("r", fmt.Sprint(len(m), s))
	case 12:
		ch := make(chan int, 2)
		ch <- x
		ch <- x + 1
		close(ch)
		t := 0
		for v := range ch {
			t += v
		}
		verif.ObsInt("r", t)
	case 13:
		var wg sync.WaitGroup
		var mu sync.Mutex
		t := 0
		for i := 0; i < 2; i++ {
			wg.Add(1)
			go func(i int) {
				defer wg.Done()
				mu.Lock()
				t += x + i
				mu.Unlock()
			}(i)
		}
		wg.Wait()
		verif.ObsInt("r", t)
	case 14:
		r := ""
		for i, c := range "aé" + string(rune('a'+x)) {
			r += fmt.Sprint(i, string(c))
		}
		verif.Obs("r", r)
	case 15:
		type pt struct{ X, Y int }
		p := pt{x, 2}
		q := p
		q.X++
		pp := &p
		pp.Y = 7
		verif.Obs("r", fmt.Sprintf("%v %v %v", p, q, p == pt{x, 7}))
	case 16:
		var sb strings.Builder
		w := func(s string) { sb.WriteString(s) }
		defer func() { verif.Obs("r", sb.String()) }()
		for i := 0; i < x; i++ {
			defer w(fmt.Sprint(i))
		}
	case 17:
		u := uint8(b)
		verif.ObsInt("r", int(u>>3)+int(int8(u))+int(u*3)+int(^u)+int(u&^0x0f)+int(u%7))
	case 18:
		i64 := int64(x) - 3
		verif.ObsInt("r", int(i64/2)+int(i64%2)+int(i64<<2)+int(i64>>1)+int(uint32(i64)>>30))
	case 19:
		fn := strings.ToUpper
		if x > 2 {
			fn = strings.ToLower
		}
		verif.Obs("r", fn("aB"))
	case 20:
		bs := []byte("hello")
		bs[x%5] = b | 0x20
		verif.Obs("r", fmt.Sprint(len(string(bs)), bs[0] == 'h'))
	case 21:
		arr := [3]string{"a", "b", "c"}
		verif.Obs("r", arr[x%3]+strings.Repeat("z", x))
	case 22:
		for i := range 3 {
			if i == x {
				verif.ObsInt("hit", i)
			}
		}
		verif.Obs("r", "done")
	case 23:
		seq := func(yield func(int) bool) {
			for i := 0; i < 4; i++ {
				if !yield(i * x) {
					return
				}
			}
		}
		t := 0
		for v := range seq {
			if v > 6 {
				break
			}
			t += v
		}
		verif.ObsInt("r", t)
	case 24:
		for _, sp := range []string{"1.5", "2e3", "0.1", "1e22", "123456789e-3", "1e23", "9007199254740993", "1e400", ".5e1", "4.9e-324", "1.7976931348623157e308"} {
			f, err := strconv.ParseFloat(sp, 64)
			verif.Obs("f", fmt.Sprint(f, err != nil, uint64(f/1e300)))
		}
	case 25:
		sp := verif.ConcreteStr(verif.BytesIn(3, "0159.e"))
		f, err := strconv.ParseFloat(sp, 64)
		verif.Obs("f", fmt.Sprint(sp, f, err != nil))
	case 26:
		var m sync.Map
		m.Store(x, "v")
		m.Store("k", 2)
		v, ok := m.Load(x)
		_, ok2 := m.Load(9)
		a, loaded := m.LoadOrStore("k", 3)
		b, loaded2 := m.LoadOrStore(x+10, 4)
		m.Delete("k")
		n := 0
		m.Range(func(k, v any) bool { n++; return true })
		verif.Obs("r", fmt.Sprint(v, ok, ok2, a, loaded, b, loaded2, n))
	case 27:
		m := map[string]int{"a": x, "b": 2}
		c := maps.Clone(m)
		c["a"] = 9
		var nilm map[string]int
		keys := slices.Sorted(maps.Keys(c))
		verif.Obs("r", fmt.Sprint(m["a"], c["a"], len(c), maps.Clone(nilm) == nil, keys))
	case 28:
		var p atomic.Pointer[langSq]
		old := p.Load()
		p.Store(&langSq{x})
		sw := p.CompareAndSwap(old, &langSq{1})
		cur := p.Load()
		prev := p.Swap(nil)
		verif.Obs("r", fmt.Sprint(old == nil, sw, cur.s, prev.s, p.Load() == nil))
	case 29:
		calls := 0
		f := sync.OnceValue(func() int { calls++; return x * 2 })
		g := sync.OnceFunc(func() { calls += 10 })
		g()
		g()
		verif.Obs("r", fmt.Sprint(f(), f(), calls))
	}
	verif.Cover("lang-case")
}
