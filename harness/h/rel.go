package h

// Small relational model shared by the two reference evaluators of C02/C03:
// ordered lists of rows of nullable integer (or constant string) cells.

import (
	"github.com/runreveal/pql/parser"
)

// Cell is one value: NULL, an integer, or a constant string.
type Cell struct {
	Null bool
	V    int
	S    string
	IsS  bool
}

func intCell(v int) Cell    { return Cell{V: v} }
func nullCell() Cell        { return Cell{Null: true} }
func strCell(s string) Cell { return Cell{S: s, IsS: true} }
func boolCell(b bool) Cell {
	if b {
		return Cell{V: 1}
	}
	return Cell{V: 0}
}

// truth: not NULL and non-zero.
func (c Cell) truth() bool { return !c.Null && c.V != 0 }

func cellEq(a, b Cell) bool {
	if a.Null || b.Null {
		return a.Null && b.Null
	}
	if a.IsS || b.IsS {
		return a.IsS && b.IsS && a.S == b.S
	}
	return a.V == b.V
}

// Table is an ordered list of rows with named columns. Named[i] tells whether
// the PQL program (or SQL alias derived from it) states the column name explicitly.
type Table struct {
	Cols  []string
	Named []bool
	Rows  [][]Cell
}

func (t *Table) colIndex(name string) int {
	// the last column of that name wins (extend may shadow)
	for i := len(t.Cols) - 1; i >= 0; i-- {
		if t.Cols[i] == name {
			return i
		}
	}
	return -1
}

func copyRow(r []Cell) []Cell {
	out := make([]Cell, len(r))
	copy(out, r)
	return out
}

// DB maps table names to tables.
type DB map[string]*Table

// binary arithmetic / comparison with SQL NULL propagation.
func cellBin(op string, a, b Cell) Cell {
	switch op {
	case "and":
		// three-valued logic
		if (!a.Null && a.V == 0) || (!b.Null && b.V == 0) {
			return boolCell(false)
		}
		if a.Null || b.Null {
			return nullCell()
		}
		return boolCell(true)
	case "or":
		if (!a.Null && a.V != 0) || (!b.Null && b.V != 0) {
			return boolCell(true)
		}
		if a.Null || b.Null {
			return nullCell()
		}
		return boolCell(false)
	}
	if a.Null || b.Null {
		return nullCell()
	}
	switch op {
	case "plus":
		return intCell(a.V + b.V)
	case "minus":
		return intCell(a.V - b.V)
	case "mul":
		return intCell(a.V * b.V)
	case "eq":
		return boolCell(cellEq(a, b))
	case "ne":
		return boolCell(!cellEq(a, b))
	case "lt":
		return boolCell(a.V < b.V)
	case "le":
		return boolCell(a.V <= b.V)
	case "gt":
		return boolCell(a.V > b.V)
	case "ge":
		return boolCell(a.V >= b.V)
	}
	panic("rel: operator outside the interpreted fragment: " + op)
}

// sortKey is one ORDER BY / sort term evaluated per row.
type sortKey struct {
	vals       []Cell // per row
	desc       bool
	nullsFirst bool
}

// less reports whether row i must come before row j under key k (false if tied).
func (k sortKey) cmp(i, j int) int {
	a, b := k.vals[i], k.vals[j]
	if a.Null || b.Null {
		if a.Null && b.Null {
			return 0
		}
		if a.Null == k.nullsFirst {
			return -1
		}
		return 1
	}
	if a.V == b.V {
		return 0
	}
	if (a.V < b.V) != k.desc {
		return -1
	}
	return 1
}

// stableSort returns the row order under the keys (insertion sort: stable).
func stableSort(n int, keys []sortKey) []int {
	order := make([]int, n)
	for i := range order {
		order[i] = i
	}
	for i := 1; i < n; i++ {
		for j := i; j > 0; j-- {
			c := 0
			for _, k := range keys {
				c = k.cmp(order[j-1], order[j])
				if c != 0 {
					break
				}
			}
			if c <= 0 {
				break
			}
			order[j-1], order[j] = order[j], order[j-1]
		}
	}
	return order
}

// groupRows partitions row indexes by key cells, groups in order of first appearance.
func groupRows(n int, keys [][]Cell) [][]int {
	var groups [][]int
	for i := 0; i < n; i++ {
		placed := false
		for g := range groups {
			same := true
			for _, k := range keys {
				if !cellEq(k[groups[g][0]], k[i]) {
					same = false
					break
				}
			}
			if same {
				groups[g] = append(groups[g], i)
				placed = true
				break
			}
		}
		if !placed {
			groups = append(groups, []int{i})
		}
	}
	return groups
}

func aggMax(vals []Cell, rows []int) Cell {
	r := nullCell()
	for _, i := range rows {
		v := vals[i]
		if v.Null {
			continue
		}
		if r.Null || v.V > r.V {
			r = v
		}
	}
	return r
}

func aggSum(vals []Cell, rows []int) Cell {
	r := nullCell()
	for _, i := range rows {
		v := vals[i]
		if v.Null {
			continue
		}
		if r.Null {
			r = intCell(v.V)
		} else {
			r = intCell(r.V + v.V)
		}
	}
	return r
}

func dedupRows(rows [][]Cell) [][]Cell {
	var out [][]Cell
	for _, r := range rows {
		dup := false
		for _, o := range out {
			same := true
			for i := range r {
				if !cellEq(r[i], o[i]) {
					same = false
					break
				}
			}
			if same {
				dup = true
				break
			}
		}
		if !dup {
			out = append(out, r)
		}
	}
	return out
}

// litInt parses a non-negative integer literal.
func litInt(s string) (int, bool) {
	if s == "" {
		return 0, false
	}
	n := 0
	for i := 0; i < len(s); i++ {
		if !isDig(s[i]) {
			return 0, false
		}
		n = n*10 + int(s[i]-'0')
		if n > 1<<40 {
			n = 1 << 40 // saturate: beyond any table size or value of the model
		}
	}
	return n, true
}

var relBinNames = map[parser.TokenKind]string{
	parser.TokenAnd: "and", parser.TokenOr: "or", parser.TokenPlus: "plus", parser.TokenMinus: "minus", parser.TokenStar: "mul",
	parser.TokenLT: "lt", parser.TokenLE: "le", parser.TokenGT: "gt", parser.TokenGE: "ge",
}
