package h

import (
	"github.com/runreveal/pql"
	"github.com/runreveal/pql/parser"

	"verifh/verif"
)

// PureSources are the programs of the purity checks (successes and failures whose
// error texts involve sorted map keys, positions and formatted tokens).
var PureSources = []string{
	"T | where a == 1 and f(b) | take 2",
	"T | join kind=bad (U) on a",
	"let x = 1; T | project c = x, d = strcat(p, 's') | sort by c",
	"T | where",
	"T | summarize n = count() by tolower(a) | top 1 by n",
	"T | join kind=leftouter (U | where not(isnull(b))) on a, $left.b == $right.b | count",
	"T | where a == 'C:\\tmp\\'",
	"T | where b == 'it\\'s' and p > 1",
}

func compileRes(opts *pql.CompileOptions, src string) string {
	sql, err := opts.Compile(src)
	if err != nil {
		return "ERR:" + sql + ":" + err.Error()
	}
	return "SQL:" + sql
}

func parseRes(src string) string {
	stmts, err := parser.Parse(src)
	s := itoa(len(stmts)) + " statements"
	for _, st := range stmts {
		sp := st.Span()
		s += " [" + itoa(sp.Start) + "," + itoa(sp.End) + ")"
	}
	if err != nil {
		s += " ERR:" + err.Error()
	}
	return s
}

func sameMap(a, b map[string]string) bool {
	if len(a) != len(b) {
		return false
	}
	for k, v := range a {
		if w, ok := b[k]; !ok || w != v {
			return false
		}
	}
	return true
}

// H_C14seq: repeated and interleaved calls give identical results, the
// parameter map is not modified, nil/zero/empty options are equivalent, and
// nothing depends on map iteration order.
func H_C14seq(i, j int) {
	si, sj := PureSources[i], PureSources[j]
	// (names that differ only in surrounding white space are different names: nothing may conflate them)
	params := map[string]string{"p": "$1", "b": "{b:String}", "p ": "$7", " p": "$8"}
	before := map[string]string{"p": "$1", "b": "{b:String}", "p ": "$7", " p": "$8"}
	opts := &pql.CompileOptions{Parameters: params}
	r1 := compileRes(opts, si)
	r2 := compileRes(opts, sj)
	r3 := compileRes(opts, si)
	r4 := compileRes(opts, sj)
	verif.Assert(r1 == r3 && r2 == r4, "a repeated Compile call gives a different result")
	verif.Assert(sameMap(params, before), "Compile modified the caller's parameter map")
	n1 := compileRes(nil, si)
	n2 := compileRes(&pql.CompileOptions{}, si)
	n3 := compileRes(&pql.CompileOptions{Parameters: map[string]string{}}, si)
	verif.Assert(n1 == n2 && n2 == n3, "nil, zero and empty options are not equivalent")
	verif.Assert(parseRes(si) == parseRes(si), "Parse gives different results for equal inputs")
	verif.Assert(DumpTokens(parser.Scan(si)) == DumpTokens(parser.Scan(si)), "Scan gives different results for equal inputs")
	// map iteration order is an explicit choice from here on
	verif.PermuteMaps()
	r5 := compileRes(opts, si)
	verif.Assert(r5 == r1, "the result depends on map iteration order")
	// (compared entry by entry: ranging over the map here would multiply the permutations explored)
	verif.Assert(len(params) == 4 && params["p"] == "$1" && params["b"] == "{b:String}" && params["p "] == "$7" && params[" p"] == "$8", "Compile modified the caller's parameter map")
	// an empty (non-nil) caller map stays empty, and a later call does not see an earlier call's lets
	e := map[string]string{}
	eo := &pql.CompileOptions{Parameters: e}
	compileRes(eo, "let x = 1; let p = x; T | take x")
	verif.Assert(len(e) == 0, "Compile modified the caller's (empty) parameter map")
	verif.Assert(compileRes(eo, "T | where x > p") == compileRes(nil, "T | where x > p"), "a let of an earlier call is visible to a later call with the same options")
	verif.Cover("history-checked")
}

// PermSources are programs whose compilation iterates over maps with several entries
// (reserved names that meet the generated ones, several parameters).
var PermSources = []string{
	"T | as __subquery1 | where a | as __subquery1_",
	"T | as __subquery0 | as __subquery0_ | count | count",
	"T | as __subquery0_ | where a | as __subquery0 | where b | as __subquery1 | count",
	"A | join kind=zz (B) on k",
}

// H_C14perm: the result does not depend on the iteration order of any map (symbolic permutation).
func H_C14perm(k int) {
	opts := &pql.CompileOptions{Parameters: map[string]string{"p": "$1", "q": "$2", "__subquery1": "x"}}
	r0 := compileRes(opts, PermSources[k])
	verif.PermuteMaps()
	r1 := compileRes(opts, PermSources[k])
	verif.Assert(r0 == r1, "the result depends on map iteration order")
	verif.Cover("permutations-checked")
}

// HistSources are further programs of the call-history check: ones whose user-chosen names
// meet the generated subquery names, and ones that generate several subqueries.
var HistSources = []string{
	"T | as __subquery0",
	"T | as __subquery1 | count | count | count",
	"T | count | count",
	"T | where a | take 1 | where b | take 2 | count",
	"A | join kind=zz (B) on k",
	"A | join (B | as __subquery0 | count) on k | count",
}

func histSource(k int) string {
	if k < len(PureSources) {
		return PureSources[k]
	}
	return HistSources[k-len(PureSources)]
}

// NumHistSources is the number of programs of H_C14hist.
const NumHistSources = 14

// H_C14hist: the result of compiling program j in a process that has compiled
// nothing else, or exactly one arbitrary other program before. Every path starts
// from the process's initial state; the check compares the observation "result"
// across all paths of the run (and across fresh native processes to confirm).
func H_C14hist(j int) {
	opts := &pql.CompileOptions{Parameters: map[string]string{"p": "$1"}}
	i := verif.Concrete(verif.IntRange(0, NumHistSources+1))
	if i < NumHistSources {
		compileRes(opts, histSource(i))
	}
	verif.Obs("result", compileRes(opts, histSource(j)))
	verif.Obs("parse", parseRes(histSource(j)))
	verif.Cover("call-history-checked")
}

// H_C14par: two concurrent Compile calls sharing their options, cold (very
// first calls in the process) or warm, under every interleaving of their
// visible operations: no data race, and each result equals the sequential one.
func H_C14par(i, j, warm int) {
	si, sj := PureSources[i], PureSources[j]
	params := map[string]string{"p": "$1", "zz": "?"}
	before := map[string]string{"p": "$1", "zz": "?"}
	opts := &pql.CompileOptions{Parameters: params}
	if warm == 1 {
		compileRes(opts, si)
	}
	verif.MarkShared(opts)
	var ra, rb string
	races := verif.Par(
		func() { ra = compileRes(opts, si) },
		func() { rb = compileRes(opts, sj) },
	)
	verif.Assert(len(races) == 0, "data race between concurrent Compile calls")
	verif.Assert(ra == compileRes(opts, si) && rb == compileRes(opts, sj), "a concurrent Compile call gives a different result than a sequential one")
	verif.Assert(sameMap(params, before), "Compile modified the caller's parameter map")
	verif.Cover("schedules-checked")
}

// H_C14parse: concurrent Parse and Scan.
func H_C14parse(i, j int) {
	si, sj := PureSources[i], PureSources[j]
	verif.MarkShared()
	var ra, rb string
	races := verif.Par(
		func() { ra = parseRes(si) + DumpTokens(parser.Scan(si)) },
		func() { rb = parseRes(sj) + DumpTokens(parser.Scan(sj)) },
	)
	verif.Assert(len(races) == 0, "data race between concurrent Parse/Scan calls")
	verif.Assert(ra == parseRes(si)+DumpTokens(parser.Scan(si)) && rb == parseRes(sj)+DumpTokens(parser.Scan(sj)), "a concurrent Parse/Scan call gives a different result than a sequential one")
	verif.Cover("schedules-checked")
}
