package h

// Meaning of PQL expressions (by the property's text) and of the emitted SQL
// expressions as terms of the value algebra. Operators and pass-through
// functions are uninterpreted, so "same operators, same operands, same order"
// is equality of terms for every data type at once; coalesce, IS NULL and CASE
// are interpreted so that NULL/truth claims can be proved.

import (
	"github.com/runreveal/pql/parser"

	"verifh/verif"
)

func vCoalesce(a, b verif.Val) verif.Val { return verif.VIte(verif.FIsNull(a), b, a) }
func vBool(f verif.Form) verif.Val       { return verif.VIte(f, verif.VTrue(), verif.VFalse()) }
func vCase(c, t, e verif.Val) verif.Val  { return verif.VIte(verif.FTruth(c), t, e) }

var pqlBinNames = map[parser.TokenKind]string{
	parser.TokenAnd: "and", parser.TokenOr: "or", parser.TokenPlus: "plus", parser.TokenMinus: "minus",
	parser.TokenStar: "mul", parser.TokenSlash: "div", parser.TokenMod: "mod",
	parser.TokenLT: "lt", parser.TokenLE: "le", parser.TokenGT: "gt", parser.TokenGE: "ge",
}

func joinParts(parts []string) string {
	s := ""
	for i, p := range parts {
		if i > 0 {
			s += "\x01"
		}
		s += p
	}
	return s
}

// Scope maps a name to the value its binding denotes.
type Scope map[string]verif.Val

// PQLVal is the value of PQL expression x (grouping as parsed), with scope
// giving the values of let-bound names and parameters.
func PQLVal(x parser.Expr, scope Scope) verif.Val {
	switch x := x.(type) {
	case *parser.ParenExpr:
		return PQLVal(x.X, scope)
	case *parser.BasicLit:
		if x.Kind == parser.TokenNumber {
			return verif.VConst("num:" + x.Value)
		}
		return verif.VConst("str:" + x.Value)
	case *parser.QualifiedIdent:
		if len(x.Parts) == 1 && !x.Parts[0].Quoted {
			name := x.Parts[0].Name
			if v, ok := scope[name]; ok {
				return v
			}
			switch name {
			case "true":
				return verif.VTrue()
			case "false":
				return verif.VFalse()
			case "null":
				return verif.VNull()
			}
		}
		var parts []string
		for _, p := range x.Parts {
			parts = append(parts, p.Name)
		}
		return verif.VConst("col:" + joinParts(parts))
	case *parser.UnaryExpr:
		if x.Op == parser.TokenMinus {
			return verif.VApp("neg", PQLVal(x.X, scope))
		}
		return verif.VApp("pos", PQLVal(x.X, scope))
	case *parser.BinaryExpr:
		a, b := PQLVal(x.X, scope), PQLVal(x.Y, scope)
		switch x.Op {
		case parser.TokenEq:
			return vCoalesce(verif.VApp("eq", a, b), verif.VFalse())
		case parser.TokenNE:
			return vCoalesce(verif.VApp("ne", a, b), verif.VFalse())
		case parser.TokenCaseInsensitiveEq:
			return verif.VApp("eq", verif.VApp("lower", a), verif.VApp("lower", b))
		case parser.TokenCaseInsensitiveNE:
			return verif.VApp("ne", verif.VApp("lower", a), verif.VApp("lower", b))
		}
		return verif.VApp(pqlBinNames[x.Op], a, b)
	case *parser.InExpr:
		args := []verif.Val{PQLVal(x.X, scope)}
		for _, v := range x.Vals {
			args = append(args, PQLVal(v, scope))
		}
		return verif.VApp("in", args...)
	case *parser.IndexExpr:
		return verif.VApp("index", PQLVal(x.X, scope), PQLVal(x.Index, scope))
	case *parser.CallExpr:
		var args []verif.Val
		for _, a := range x.Args {
			args = append(args, PQLVal(a, scope))
		}
		switch x.Func.Name {
		case "not":
			return verif.VApp("not", args...)
		case "isnull":
			return vBool(verif.FIsNull(args[0]))
		case "isnotnull":
			return vBool(verif.FNot(verif.FIsNull(args[0])))
		case "iff", "iif":
			return vCase(args[0], args[1], args[2])
		case "strcat":
			r := args[0]
			for _, a := range args[1:] {
				r = verif.VApp("concat", r, a)
			}
			return r
		case "tolower":
			return verif.VApp("lower", args...)
		case "toupper":
			return verif.VApp("upper", args...)
		case "now":
			return verif.VConst("now")
		case "count":
			return verif.VApp("count")
		case "countif":
			return verif.VApp("countif", args...)
		}
		return verif.VApp("fn:"+x.Func.Name, args...)
	}
	return verif.VConst("unrepresentable")
}

var sqlBinNames = map[string]string{
	"AND": "and", "OR": "or", "+": "plus", "-": "minus", "*": "mul", "/": "div", "%": "mod",
	"<": "lt", "<=": "le", ">": "gt", ">=": "ge", "=": "eq", "<>": "ne", "||": "concat", "LIKE": "like",
}

// SQLVal is the value of a parsed SQL expression (grouping by the SQL
// dialect's own priorities); params maps a placeholder text to its value.
func SQLVal(n *SQLNode, params Scope) verif.Val {
	switch n.Op {
	case "num":
		return verif.VConst("num:" + n.Text)
	case "str":
		return verif.VConst("str:" + n.Text)
	case "param":
		if v, ok := params[n.Text]; ok {
			return v
		}
		return verif.VConst("param:" + n.Text)
	case "col":
		return verif.VConst("col:" + joinParts(n.Parts))
	case "true":
		return verif.VTrue()
	case "false":
		return verif.VFalse()
	case "null":
		return verif.VNull()
	case "now":
		return verif.VConst("now")
	case "star":
		return verif.VConst("star")
	case "neg":
		return verif.VApp("neg", SQLVal(n.Kids[0], params))
	case "pos":
		return verif.VApp("pos", SQLVal(n.Kids[0], params))
	case "not":
		return verif.VApp("not", SQLVal(n.Kids[0], params))
	case "bin":
		return verif.VApp(sqlBinNames[n.Text], SQLVal(n.Kids[0], params), SQLVal(n.Kids[1], params))
	case "in":
		var args []verif.Val
		for _, k := range n.Kids {
			args = append(args, SQLVal(k, params))
		}
		return verif.VApp("in", args...)
	case "index":
		return verif.VApp("index", SQLVal(n.Kids[0], params), SQLVal(n.Kids[1], params))
	case "isnull":
		return vBool(verif.FIsNull(SQLVal(n.Kids[0], params)))
	case "isnotnull":
		return vBool(verif.FNot(verif.FIsNull(SQLVal(n.Kids[0], params))))
	case "case":
		return vCase(SQLVal(n.Kids[0], params), SQLVal(n.Kids[1], params), SQLVal(n.Kids[2], params))
	case "call":
		var args []verif.Val
		for _, k := range n.Kids {
			args = append(args, SQLVal(k, params))
		}
		switch n.Text {
		case "coalesce":
			if len(args) == 2 {
				return vCoalesce(args[0], args[1])
			}
		case "lower", "LOWER":
			if len(args) == 1 {
				return verif.VApp("lower", args...)
			}
		case "upper", "UPPER":
			if len(args) == 1 {
				return verif.VApp("upper", args...)
			}
		case "count":
			if len(args) == 0 {
				if n.Filter != nil {
					return verif.VApp("countif", SQLVal(n.Filter, params))
				}
				return verif.VApp("count")
			}
		}
		if n.Filter != nil {
			return verif.VConst("unrepresentable-filter")
		}
		return verif.VApp("fn:"+n.Text, args...)
	}
	return verif.VConst("unrepresentable-sql")
}
