package h

import (
	"github.com/runreveal/pql/parser"

	"verifh/verif"
)

// SplitTokens cuts a token list at semicolon tokens.
func SplitTokens(toks []parser.Token) [][]parser.Token {
	var pieces [][]parser.Token
	start := 0
	for i, t := range toks {
		if t.Kind == parser.TokenSemi {
			pieces = append(pieces, toks[start:i])
			start = i + 1
		}
	}
	return append(pieces, toks[start:])
}

// CheckAccounted asserts that every significant token of the source is
// represented, in order, in the successfully parsed tree.
func CheckAccounted(toks []parser.Token, stmts []parser.Statement) {
	for _, t := range toks {
		verif.Assert(t.Kind != parser.TokenError, "parse succeeded although the source contains an error token")
	}
	si := 0
	for _, piece := range SplitTokens(toks) {
		if len(piece) == 0 {
			continue
		}
		verif.Assert(si < len(stmts), "a statement of the source is missing from the tree")
		if si >= len(stmts) {
			return
		}
		exp, _, bad := Reprint(stmts[si])
		verif.Assert(bad == "", "successfully parsed tree is incomplete: "+bad)
		msg, _ := MatchStatement(piece, exp)
		verif.Assert(msg == "", "parse succeeded but "+msg)
		si++
	}
	verif.Assert(si == len(stmts), "the tree has statements the source does not have")
}

// H_C08 checks every sequence of k tokens: accepted => fully represented.
func H_C08(k, vocab int) {
	src := verif.Tokens(k, Vocab(vocab))
	stmts, err := parser.Parse(src)
	if err != nil {
		verif.Cover("rejected")
		return
	}
	verif.Cover("accepted")
	CheckAccounted(parser.Scan(src), stmts)
}

// Seeds are valid programs (as lexeme lists over Vocab(0)) that the corruption family damages.
var Seeds = [][]string{
	{"T", "|", "where", "a", "==", "1", "and", "b", "in", "(", "1", ",", "2.5", ")"},
	{"T", "|", "project", "a", ",", "b", "=", "f", "(", "a", ",", "1", ")"},
	{"T", "|", "summarize", "a", "=", "count", "(", ")", ",", "b", "by", "a", ",", "b"},
	{"T", "|", "sort", "by", "a", "desc", "nulls", "first", ",", "b", "asc"},
	{"T", "|", "top", "1", "by", "a", "asc", "nulls", "last"},
	{"T", "|", "join", "kind", "=", "inner", "(", "U", "|", "where", "a", ")", "on", "a", ",", "$left", ".", "a", "==", "$right", ".", "b"},
	{"let", "a", "=", "1", ";", "T", "|", "take", "a"},
	{"T", "|", "extend", "a", "=", "b", "[", "1", "]", "+", "-", "2.5", ",", "f", "(", ")"},
	{"T", "|", "render", "a", "with", "(", "b", "=", "'s'", ",", "a", "=", "1", ")"},
	{"T", "|", "where", "not", "(", "a", ")", "or", "isnull", "(", "b", "[", "'s'", "]", ")"},
	{"T", "|", "as", "U", "|", "count"},
	{"T", "|", "where", "(", "a", "+", "b", ")", "*", "2.5", ">=", "-", "1"},
	// 12-17: expression constructs inside every operator's argument positions, nesting
	{"T", "|", "summarize", "f", "(", "b", ")", ",", "a", "in", "(", "1", ")", "by", "b", "in", "(", "2.5", ")", ",", "a"},
	{"T", "|", "sort", "by", "a", "in", "(", "1", ")", "asc", ",", "f", "(", "b", ")", "desc", "|", "top", "1", "by", "b", "[", "1", "]"},
	{"T", "|", "project", "a", "in", "(", "1", ")", ",", "b", "=", "not", "(", "a", ")", "|", "extend", "f", "(", "a", ",", ")"},
	{"T", "|", "join", "(", "U", "|", "join", "(", "T", ")", "on", "a", ")", "on", "$left", ".", "a", "==", "f", "(", "1", ")", ",", "b", "in", "(", "1", ")"},
	{"let", "a", "=", "f", "(", "1", ")", ";", "let", "b", "=", "a", ";", "T", "|", "take", "1", ";"},
	{"T", "|", "where", "a", "in", "(", "f", "(", "1", ",", ")", ",", "b", "[", "1", "]", ")", "|", "count", "|", "as", "U"},
	// 18-19: nested built-ins with siblings; a query followed by further statements
	{"T", "|", "extend", "strcat", "(", "a", ",", "strcat", "(", "b", ")", ")", ",", "tolower", "(", "toupper", "(", "a", ")", ")"},
	{"T", "|", "top", "1", "by", "a", ";", "U", "|", "count", ";", "let", "a", "=", "1"},
	// 20: built-ins nested in the last argument of the same built-in, with a trailing comma (room for one more argument)
	{"T", "|", "extend", "a", "=", "iff", "(", "a", ",", "1", ",", "iff", "(", "b", ",", "1", ",", "2.5", ",", ")", ")", ",", "strcat", "(", "a", ",", "strcat", "(", "b", ",", ")", ")"},
}

func vocabIndex(vocab []string, lex string) int {
	for i, v := range vocab {
		if v == lex {
			return i
		}
	}
	panic("seed lexeme not in vocabulary: " + lex)
}

// corrupt applies one corruption (kind, position p) to a slot list; -1 is a free slot.
func corrupt(slots []int, kind, p int) []int {
	var out []int
	switch kind {
	case 0: // delete
		out = append(out, slots[:p]...)
		out = append(out, slots[p+1:]...)
	case 1: // insert an arbitrary token before p
		out = append(out, slots[:p]...)
		out = append(out, -1)
		out = append(out, slots[p:]...)
	case 2: // replace by an arbitrary token
		out = append(out, slots...)
		out[p] = -1
	case 3: // duplicate
		out = append(out, slots[:p+1]...)
		out = append(out, slots[p:]...)
	case 4: // transpose with the next token
		out = append(out, slots...)
		if p+1 < len(out) {
			out[p], out[p+1] = out[p+1], out[p]
		}
	case 5: // truncate before p
		out = append(out, slots[:p]...)
	}
	return out
}

// H_C08seed damages seed program s with n (1 or 2) corruptions whose kind,
// position and inserted token are arbitrary, and checks accepted => represented.
func H_C08seed(s, n int) {
	vocab := Vocab(0)
	seed := Seeds[s]
	slots := make([]int, len(seed))
	for i, l := range seed {
		slots[i] = vocabIndex(vocab, l)
	}
	for c := 0; c < n; c++ {
		kind := verif.Concrete(verif.IntRange(0, 6))
		p := verif.Concrete(verif.IntRange(0, len(slots)))
		slots = corrupt(slots, kind, p)
	}
	src := verif.TokenSeq(vocab, slots)
	stmts, err := parser.Parse(src)
	if err != nil {
		verif.Cover("rejected")
		return
	}
	verif.Cover("accepted")
	CheckAccounted(parser.Scan(src), stmts)
}
