package h

import (
	"github.com/runreveal/pql/parser"

	"verifh/verif"
)

const treeMsg = "the parser's tree differs from the grammar's tree: "

func sameIdent(a, b *parser.Ident, what string) {
	if a == nil || b == nil {
		verif.Assert(a == nil && b == nil, treeMsg+what+" present on one side only")
		return
	}
	verif.Assert(a.Name == b.Name, treeMsg+what+" name")
	verif.Assert(a.Quoted == b.Quoted, treeMsg+what+" quoted flag")
}

func sameExpr(a, b parser.Expr) {
	switch b := b.(type) {
	case nil:
		verif.Assert(a == nil, treeMsg+"unexpected expression")
	case *parser.BinaryExpr:
		x, ok := a.(*parser.BinaryExpr)
		if !ok {
			verif.Fail(treeMsg + "expected a binary expression (grouping)")
			return
		}
		verif.Assert(x.Op == b.Op, treeMsg+"binary operator (grouping)")
		sameExpr(x.X, b.X)
		sameExpr(x.Y, b.Y)
	case *parser.UnaryExpr:
		x, ok := a.(*parser.UnaryExpr)
		if !ok {
			verif.Fail(treeMsg + "expected a unary expression")
			return
		}
		verif.Assert(x.Op == b.Op, treeMsg+"unary operator")
		sameExpr(x.X, b.X)
	case *parser.InExpr:
		x, ok := a.(*parser.InExpr)
		if !ok {
			verif.Fail(treeMsg + "expected an in expression")
			return
		}
		sameExpr(x.X, b.X)
		if len(x.Vals) != len(b.Vals) {
			verif.Fail(treeMsg + "in list length")
			return
		}
		for i := range b.Vals {
			sameExpr(x.Vals[i], b.Vals[i])
		}
	case *parser.ParenExpr:
		x, ok := a.(*parser.ParenExpr)
		if !ok {
			verif.Fail(treeMsg + "expected a parenthesised expression")
			return
		}
		sameExpr(x.X, b.X)
	case *parser.BasicLit:
		x, ok := a.(*parser.BasicLit)
		if !ok {
			verif.Fail(treeMsg + "expected a literal")
			return
		}
		verif.Assert(x.Kind == b.Kind, treeMsg+"literal kind")
		verif.Assert(x.Value == b.Value, treeMsg+"literal value")
	case *parser.CallExpr:
		x, ok := a.(*parser.CallExpr)
		if !ok {
			verif.Fail(treeMsg + "expected a call")
			return
		}
		sameIdent(x.Func, b.Func, "function")
		if len(x.Args) != len(b.Args) {
			verif.Fail(treeMsg + "argument count")
			return
		}
		for i := range b.Args {
			sameExpr(x.Args[i], b.Args[i])
		}
	case *parser.IndexExpr:
		x, ok := a.(*parser.IndexExpr)
		if !ok {
			verif.Fail(treeMsg + "expected an index expression")
			return
		}
		sameExpr(x.X, b.X)
		sameExpr(x.Index, b.Index)
	case *parser.QualifiedIdent:
		x, ok := a.(*parser.QualifiedIdent)
		if !ok {
			verif.Fail(treeMsg + "expected an identifier")
			return
		}
		if len(x.Parts) != len(b.Parts) {
			verif.Fail(treeMsg + "qualified name length")
			return
		}
		for i := range b.Parts {
			sameIdent(x.Parts[i], b.Parts[i], "identifier")
		}
	default:
		verif.Fail(treeMsg + "unknown reference node")
	}
}

func sameSortTerm(a, b *parser.SortTerm) {
	if a == nil || b == nil {
		verif.Assert(a == nil && b == nil, treeMsg+"sort term present on one side only")
		return
	}
	sameExpr(a.X, b.X)
	verif.Assert(a.Asc == b.Asc, treeMsg+"sort direction (default is descending)")
	verif.Assert(a.NullsFirst == b.NullsFirst, treeMsg+"null placement (desc: last, asc: first unless stated)")
	verif.Assert(a.AscDescSpan.IsValid() == b.AscDescSpan.IsValid(), treeMsg+"asc/desc presence")
	verif.Assert(a.NullsSpan.IsValid() == b.NullsSpan.IsValid(), treeMsg+"nulls clause presence")
}

func sameTabular(a, b *parser.TabularExpr) {
	if a == nil || b == nil {
		verif.Assert(a == nil && b == nil, treeMsg+"tabular expression present on one side only")
		return
	}
	ar, ok := a.Source.(*parser.TableRef)
	if !ok {
		verif.Fail(treeMsg + "data source")
		return
	}
	sameIdent(ar.Table, b.Source.(*parser.TableRef).Table, "table")
	if len(a.Operators) != len(b.Operators) {
		verif.Fail(treeMsg + "number of operators")
		return
	}
	for i := range b.Operators {
		sameOperator(a.Operators[i], b.Operators[i])
	}
}

func sameOperator(a, b parser.TabularOperator) {
	switch b := b.(type) {
	case *parser.CountOperator:
		_, ok := a.(*parser.CountOperator)
		verif.Assert(ok, treeMsg+"expected count")
	case *parser.WhereOperator:
		x, ok := a.(*parser.WhereOperator)
		if !ok {
			verif.Fail(treeMsg + "expected where")
			return
		}
		sameExpr(x.Predicate, b.Predicate)
	case *parser.SortOperator:
		x, ok := a.(*parser.SortOperator)
		if !ok || len(x.Terms) != len(b.Terms) {
			verif.Fail(treeMsg + "expected sort with the same number of terms")
			return
		}
		for i := range b.Terms {
			sameSortTerm(x.Terms[i], b.Terms[i])
		}
	case *parser.TakeOperator:
		x, ok := a.(*parser.TakeOperator)
		if !ok {
			verif.Fail(treeMsg + "expected take")
			return
		}
		sameExpr(x.RowCount, b.RowCount)
	case *parser.TopOperator:
		x, ok := a.(*parser.TopOperator)
		if !ok {
			verif.Fail(treeMsg + "expected top")
			return
		}
		sameExpr(x.RowCount, b.RowCount)
		sameSortTerm(x.Col, b.Col)
	case *parser.ProjectOperator:
		x, ok := a.(*parser.ProjectOperator)
		if !ok || len(x.Cols) != len(b.Cols) {
			verif.Fail(treeMsg + "expected project with the same number of columns")
			return
		}
		for i := range b.Cols {
			sameIdent(x.Cols[i].Name, b.Cols[i].Name, "project column")
			sameExpr(x.Cols[i].X, b.Cols[i].X)
		}
	case *parser.ExtendOperator:
		x, ok := a.(*parser.ExtendOperator)
		if !ok || len(x.Cols) != len(b.Cols) {
			verif.Fail(treeMsg + "expected extend with the same number of columns")
			return
		}
		for i := range b.Cols {
			sameIdent(x.Cols[i].Name, b.Cols[i].Name, "extend column")
			sameExpr(x.Cols[i].X, b.Cols[i].X)
		}
	case *parser.SummarizeOperator:
		x, ok := a.(*parser.SummarizeOperator)
		if !ok || len(x.Cols) != len(b.Cols) || len(x.GroupBy) != len(b.GroupBy) {
			verif.Fail(treeMsg + "expected summarize with the same columns and group keys")
			return
		}
		verif.Assert(x.By.IsValid() == b.By.IsValid(), treeMsg+"summarize by presence")
		for i := range b.Cols {
			sameIdent(x.Cols[i].Name, b.Cols[i].Name, "summarize column")
			sameExpr(x.Cols[i].X, b.Cols[i].X)
		}
		for i := range b.GroupBy {
			sameIdent(x.GroupBy[i].Name, b.GroupBy[i].Name, "group key")
			sameExpr(x.GroupBy[i].X, b.GroupBy[i].X)
		}
	case *parser.JoinOperator:
		x, ok := a.(*parser.JoinOperator)
		if !ok || len(x.Conditions) != len(b.Conditions) {
			verif.Fail(treeMsg + "expected join with the same number of conditions")
			return
		}
		sameIdent(x.Flavor, b.Flavor, "join kind")
		sameTabular(x.Right, b.Right)
		for i := range b.Conditions {
			sameExpr(x.Conditions[i], b.Conditions[i])
		}
	case *parser.AsOperator:
		x, ok := a.(*parser.AsOperator)
		if !ok {
			verif.Fail(treeMsg + "expected as")
			return
		}
		sameIdent(x.Name, b.Name, "as name")
	case *parser.RenderOperator:
		x, ok := a.(*parser.RenderOperator)
		if !ok || len(x.Props) != len(b.Props) {
			verif.Fail(treeMsg + "expected render with the same number of properties")
			return
		}
		sameIdent(x.ChartType, b.ChartType, "chart type")
		verif.Assert(x.With.IsValid() == b.With.IsValid(), treeMsg+"render with presence")
		for i := range b.Props {
			sameIdent(x.Props[i].Name, b.Props[i].Name, "render property")
			sameExpr(x.Props[i].Value, b.Props[i].Value)
		}
	default:
		verif.Fail(treeMsg + "unknown reference operator")
	}
}

// SameStatements asserts that the parser's statements equal the reference ones (positions ignored).
func SameStatements(got, want []parser.Statement) {
	if len(got) != len(want) {
		verif.Fail(treeMsg + "number of statements (empty statements are ignored)")
		return
	}
	for i := range want {
		switch b := want[i].(type) {
		case *parser.LetStatement:
			x, ok := got[i].(*parser.LetStatement)
			if !ok {
				verif.Fail(treeMsg + "expected a let statement")
				return
			}
			sameIdent(x.Name, b.Name, "let name")
			sameExpr(x.X, b.X)
		case *parser.TabularExpr:
			x, ok := got[i].(*parser.TabularExpr)
			if !ok {
				verif.Fail(treeMsg + "expected a tabular statement")
				return
			}
			sameTabular(x, b)
		}
	}
}

// CheckGrammarTree: if the reference grammar derives the token sequence, the
// parser must succeed with the same tree.
func CheckGrammarTree(src string) {
	toks := parser.Scan(src)
	want, ok := RefParse(toks)
	if !ok {
		verif.Cover("not-in-grammar")
		return
	}
	verif.Cover("in-grammar")
	got, err := parser.Parse(src)
	verif.Assert(err == nil, "the parser rejects a program of the documented grammar")
	if err != nil {
		return
	}
	SameStatements(got, want)
}

// H_C07 checks every sequence of k tokens the reference grammar derives.
func H_C07(k, vocab int) {
	CheckGrammarTree(verif.Tokens(k, Vocab(vocab)))
}

// opSlots lists, for vocabulary 0, the binary operator lexemes of a ladder.
var ladderOps = []string{"or", "and", "==", "!=", "<", "<=", ">", ">=", "=~", "!~", "+", "-", "*", "/", "%"}

// H_C07ladder checks operator ladders x0 o1 x1 ... on xn with every oi an
// arbitrary binary operator (the slot is free over the whole vocabulary and
// assumed to be a binary operator), shape selects decorations of the operands.
func H_C07ladder(n, shape int) {
	vocab := Vocab(0)
	var slots []int
	add := func(l string) { slots = append(slots, vocabIndex(vocab, l)) }
	add("T")
	add("|")
	add("where")
	var opSlots []int
	for i := 0; i <= n; i++ {
		if i > 0 {
			opSlots = append(opSlots, len(slots))
			slots = append(slots, -1)
		}
		switch (shape + i) % 6 {
		case 0:
			add("a")
		case 1:
			add("-")
			add("1")
		case 2:
			add("f")
			add("(")
			add("b")
			add(")")
		case 3:
			add("a")
			add("[")
			add("1")
			add("]")
		case 4:
			add("(")
			add("a")
			add("or")
			add("b")
			add(")")
		case 5:
			add("a")
			add("in")
			add("(")
			add("1")
			add(",")
			add("b")
			add(")")
		}
	}
	src := verif.TokenSeq(vocab, slots)
	toks := parser.Scan(src)
	for _, p := range opSlots {
		k := toks[p].Kind
		verif.Assume(k == parser.TokenOr || k == parser.TokenAnd || isCmp(k) || k == parser.TokenPlus || k == parser.TokenMinus ||
			k == parser.TokenStar || k == parser.TokenSlash || k == parser.TokenMod)
	}
	CheckGrammarTree(src)
}

// H_C07seed checks the seed programs (and their corruptions that stay in the grammar).
func H_C07seed(s, n int) {
	vocab := Vocab(0)
	var seed []string
	if s < len(Seeds13) {
		seed = Seeds13[s]
	} else {
		seed = Seeds[s-len(Seeds13)]
	}
	slots := make([]int, len(seed))
	for i, l := range seed {
		slots[i] = vocabIndex(vocab, l)
	}
	for c := 0; c < n; c++ {
		kind := verif.Concrete(verif.IntRange(0, 6))
		p := verif.Concrete(verif.IntRange(0, len(slots)))
		slots = corrupt(slots, kind, p)
	}
	CheckGrammarTree(verif.TokenSeq(vocab, slots))
}

func synonym(w string) string {
	switch w {
	case "where":
		return "filter"
	case "sort":
		return "order"
	case "take":
		return "limit"
	}
	return w
}

// seedByIndex returns seed number s of Seeds13 followed by Seeds.
func seedByIndex(s int) []string {
	if s < len(Seeds13) {
		return Seeds13[s]
	}
	return Seeds[s-len(Seeds13)]
}

// H_C07layout: the tree does not depend on layout. One gap of seed program s
// (which one is arbitrary) is replaced by three arbitrary bytes of white space
// and comment characters, keywords may be replaced by their synonyms; whenever
// the gap is admissible (the token language reads the neighbours unchanged),
// the tree must equal the canonical layout's tree.
func H_C07layout(s int) {
	seed := seedByIndex(s)
	if verif.Bool() {
		swapped := make([]string, len(seed))
		for i, w := range seed {
			swapped[i] = synonym(w)
		}
		seed = swapped
		verif.Cover("synonyms")
	}
	canonical := ""
	for i, w := range seedByIndex(s) {
		if i > 0 {
			canonical += " "
		}
		canonical += w
	}
	g := verif.Concrete(verif.IntRange(0, len(seed)+1))
	gap := verif.BytesIn(3, " \t\n/\xc2\xa0")
	// admissible: the reference token language reads the neighbours of the gap unchanged
	prev, next := "", ""
	if g > 0 {
		prev = seed[g-1]
	}
	if g < len(seed) {
		next = seed[g]
	}
	around, stop := RefScan(prev + gap + next)
	wantN := 0
	if prev != "" {
		wantN++
	}
	if next != "" {
		wantN++
	}
	verif.Assume(stop < 0 && len(around) == wantN)
	if prev != "" {
		verif.Assume(around[0].Start == 0 && around[0].End == len(prev))
	}
	if next != "" {
		verif.Assume(around[wantN-1].Start == len(prev)+len(gap) && around[wantN-1].End == len(prev)+len(gap)+len(next))
	}
	src := ""
	for i, w := range seed {
		if i == g {
			src += gap
		} else if i > 0 {
			src += " "
		}
		src += w
	}
	if g == len(seed) {
		src += gap
	}
	want, err0 := parser.Parse(canonical)
	if err0 != nil {
		return // not a valid seed on this tree: other checks own that
	}
	got, err := parser.Parse(src)
	verif.Cover("layout-checked")
	verif.Assert(err == nil, "a change of layout between tokens makes the parser reject the program")
	if err != nil {
		return
	}
	SameStatements(got, want)
}
