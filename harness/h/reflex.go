package h

// Reference tokenizer for PQL, written from the token language (DESIGN §4.1),
// independently of parser/lex.go. Used as the oracle of C09 and C15.

import (
	"unicode"
	"unicode/utf8"

	"github.com/runreveal/pql/parser"
)

// RTok is a reference token.
type RTok struct {
	Kind       parser.TokenKind
	Start, End int
	Value      string
	CheckValue bool // false: value is a don't-care (error texts, invalid UTF-8 in strings)
}

func isLetter(c byte) bool { return 'a' <= c && c <= 'z' || 'A' <= c && c <= 'Z' }
func isDig(c byte) bool    { return '0' <= c && c <= '9' }
func isHex(c byte) bool {
	return isDig(c) || 'a' <= c && c <= 'f' || 'A' <= c && c <= 'F'
}

func hexVal(c byte) uint64 {
	switch {
	case isDig(c):
		return uint64(c - '0')
	case 'a' <= c && c <= 'f':
		return uint64(c-'a') + 10
	default:
		return uint64(c-'A') + 10
	}
}

// utoa formats v in decimal.
func utoa(v uint64) string {
	if v == 0 {
		return "0"
	}
	var buf [20]byte
	i := len(buf)
	for v > 0 {
		i--
		buf[i] = byte('0' + v%10)
		v /= 10
	}
	return string(buf[i:])
}

// normNumber trims leading zeros of a decimal spelling, restoring a single "0".
func normNumber(s string) string {
	i := 0
	for i < len(s) && s[i] == '0' {
		i++
	}
	s = s[i:]
	if s == "" {
		return "0"
	}
	if s[0] == '.' || s[0] == 'e' || s[0] == 'E' {
		return "0" + s
	}
	return s
}

// scanExponent returns the end of an exponent part starting at i, or i if there is none.
func scanExponent(s string, i int) int {
	j := i
	if j >= len(s) || (s[j] != 'e' && s[j] != 'E') {
		return i
	}
	j++
	if j < len(s) && (s[j] == '+' || s[j] == '-') {
		j++
	}
	if j >= len(s) || !isDig(s[j]) {
		return i
	}
	for j < len(s) && isDig(s[j]) {
		j++
	}
	return j
}

func validUTF8(s string) bool {
	for i := 0; i < len(s); {
		if s[i] < utf8.RuneSelf {
			i++
			continue
		}
		r, n := utf8.DecodeRuneInString(s[i:])
		if r == utf8.RuneError && n == 1 {
			return false
		}
		i += n
	}
	return true
}

// RefScan tokenizes src. stop is reserved for error tokens whose extent the
// language leaves open (none at present: always -1).
func RefScan(src string) (toks []RTok, stop int) {
	stop = -1
	i := 0
	n := len(src)
	emit := func(k parser.TokenKind, start, end int) {
		toks = append(toks, RTok{Kind: k, Start: start, End: end, Value: "", CheckValue: true})
	}
	for i < n {
		c := src[i]
		start := i
		switch {
		case c >= utf8.RuneSelf:
			r, size := utf8.DecodeRuneInString(src[i:])
			i += size
			if !unicode.IsSpace(r) {
				toks = append(toks, RTok{Kind: parser.TokenError, Start: start, End: i})
			}
		case c == ' ' || ('\t' <= c && c <= '\r'):
			i++
		case isLetter(c) || c == '_' || c == '$':
			i++
			for i < n && (isLetter(src[i]) || isDig(src[i]) || src[i] == '_') {
				i++
			}
			word := src[start:i]
			switch word {
			case "and":
				emit(parser.TokenAnd, start, i)
			case "or":
				emit(parser.TokenOr, start, i)
			case "in":
				emit(parser.TokenIn, start, i)
			case "by":
				emit(parser.TokenBy, start, i)
			default:
				toks = append(toks, RTok{Kind: parser.TokenIdentifier, Start: start, End: i, Value: word, CheckValue: true})
			}
		case isDig(c) || c == '.':
			if c == '.' && (i+1 >= n || !isDig(src[i+1])) {
				i++
				emit(parser.TokenDot, start, i)
				break
			}
			if c == '0' && i+1 < n && (src[i+1] == 'x' || src[i+1] == 'X') {
				j := i + 2
				if j >= n || !isHex(src[j]) {
					i += 2
					toks = append(toks, RTok{Kind: parser.TokenError, Start: start, End: i})
					break
				}
				var v uint64
				overflow := false
				for j < n && isHex(src[j]) {
					if v>>60 != 0 {
						overflow = true
					}
					v = v<<4 | hexVal(src[j])
					j++
				}
				i = j
				if overflow {
					toks = append(toks, RTok{Kind: parser.TokenError, Start: start, End: i})
				} else {
					toks = append(toks, RTok{Kind: parser.TokenNumber, Start: start, End: i, Value: utoa(v), CheckValue: true})
				}
				break
			}
			for i < n && isDig(src[i]) {
				i++
			}
			if i < n && src[i] == '.' {
				i++
				for i < n && isDig(src[i]) {
					i++
				}
			}
			i = scanExponent(src, i)
			toks = append(toks, RTok{Kind: parser.TokenNumber, Start: start, End: i, Value: normNumber(src[start:i]), CheckValue: true})
		case c == '"' || c == '\'':
			i++
			val := ""
			seg := i // start of the pending raw segment
			escaped := false
			done := false
			for !done {
				if i >= n {
					toks = append(toks, RTok{Kind: parser.TokenError, Start: start, End: n})
					done = true
					break
				}
				d := src[i]
				switch {
				case d == c:
					val += src[seg:i]
					i++
					// escapes next to invalid UTF-8 in the literal's source text: value is a don't-care
					ok := !escaped || validUTF8(src[start:i])
					toks = append(toks, RTok{Kind: parser.TokenString, Start: start, End: i, Value: val, CheckValue: ok})
					done = true
				case d == '\n':
					toks = append(toks, RTok{Kind: parser.TokenError, Start: start, End: i})
					done = true
				case d == '\\':
					val += src[seg:i]
					escaped = true
					if i+1 >= n {
						toks = append(toks, RTok{Kind: parser.TokenError, Start: start, End: n})
						i = n
						done = true
						break
					}
					e := src[i+1]
					switch e {
					case '\n':
						i++
						toks = append(toks, RTok{Kind: parser.TokenError, Start: start, End: i})
						done = true
					case 'n':
						val += "\n"
						i += 2
						seg = i
					case 't':
						val += "\t"
						i += 2
						seg = i
					default:
						// the escaped character stands for itself (whole rune)
						i++
						seg = i
						_, size := utf8.DecodeRuneInString(src[i:])
						i += size
					}
				default:
					i++
				}
			}
		case c == '`':
			i++
			val := ""
			seg := i
			done := false
			for !done {
				if i >= n {
					toks = append(toks, RTok{Kind: parser.TokenError, Start: start, End: n})
					done = true
					break
				}
				d := src[i]
				switch {
				case d == '`' && i+1 < n && src[i+1] == '`':
					val += src[seg:i] + "`"
					i += 2
					seg = i
				case d == '`':
					val += src[seg:i]
					i++
					toks = append(toks, RTok{Kind: parser.TokenQuotedIdentifier, Start: start, End: i, Value: val, CheckValue: true})
					done = true
				case d == '\n':
					toks = append(toks, RTok{Kind: parser.TokenError, Start: start, End: i})
					done = true
				default:
					i++
				}
			}
		case c == '/':
			if i+1 < n && src[i+1] == '/' {
				i += 2
				for i < n && src[i] != '\n' {
					i++
				}
				if i < n {
					i++
				}
				break
			}
			i++
			emit(parser.TokenSlash, start, i)
		case c == '=':
			switch {
			case i+1 < n && src[i+1] == '=':
				i += 2
				emit(parser.TokenEq, start, i)
			case i+1 < n && src[i+1] == '~':
				i += 2
				emit(parser.TokenCaseInsensitiveEq, start, i)
			default:
				i++
				emit(parser.TokenAssign, start, i)
			}
		case c == '!':
			switch {
			case i+1 < n && src[i+1] == '=':
				i += 2
				emit(parser.TokenNE, start, i)
			case i+1 < n && src[i+1] == '~':
				i += 2
				emit(parser.TokenCaseInsensitiveNE, start, i)
			default:
				// a lone '!' is one unrecognisable piece; what follows is scanned on its own
				i++
				toks = append(toks, RTok{Kind: parser.TokenError, Start: start, End: i})
			}
		case c == '<':
			if i+1 < n && src[i+1] == '=' {
				i += 2
				emit(parser.TokenLE, start, i)
			} else {
				i++
				emit(parser.TokenLT, start, i)
			}
		case c == '>':
			if i+1 < n && src[i+1] == '=' {
				i += 2
				emit(parser.TokenGE, start, i)
			} else {
				i++
				emit(parser.TokenGT, start, i)
			}
		default:
			i++
			k := parser.TokenError
			switch c {
			case ',':
				k = parser.TokenComma
			case '|':
				k = parser.TokenPipe
			case '(':
				k = parser.TokenLParen
			case ')':
				k = parser.TokenRParen
			case '[':
				k = parser.TokenLBracket
			case ']':
				k = parser.TokenRBracket
			case '+':
				k = parser.TokenPlus
			case '-':
				k = parser.TokenMinus
			case '*':
				k = parser.TokenStar
			case '%':
				k = parser.TokenMod
			case ';':
				k = parser.TokenSemi
			}
			if k == parser.TokenError {
				toks = append(toks, RTok{Kind: k, Start: start, End: i})
			} else {
				emit(k, start, i)
			}
		}
	}
	return toks, stop
}
