package h

// Independent parser for the SQL the compiler emits: expressions with
// ClickHouse's operator priorities (transcribed from its operator table;
// trusted base) and the statement shape [WITH ...] SELECT ... ;

// SQLNode is a node of a parsed SQL expression.
//
//	Op: "col" (Parts), "num" "str" "param" (Text), "true" "false" "null" "star" "now",
//	    "call" (Text = function name, Kids = args, Filter optional), "case" (Kids = cond, then, else),
//	    "neg" "pos" "not", "bin" (Text = operator), "in" (Kids[0] in Kids[1:]),
//	    "isnull" "isnotnull", "index" (Kids = base, index), "paren" is not kept.
type SQLNode struct {
	Op     string
	Text   string
	Parts  []string
	Kids   []*SQLNode
	Filter *SQLNode
}

type sqlParser struct {
	toks []SQLTok
	pos  int
	err  string
}

func (p *sqlParser) fail(msg string) {
	if p.err == "" {
		p.err = msg
	}
}

func (p *sqlParser) peek() SQLTok {
	if p.pos < len(p.toks) {
		return p.toks[p.pos]
	}
	return SQLTok{}
}

func (p *sqlParser) isPunct(s string) bool {
	t := p.peek()
	return t.Kind == SQLPunct && t.Text == s
}

func (p *sqlParser) isWord(w string) bool {
	t := p.peek()
	return t.Kind == SQLWord && upper(t.Text) == w
}

func (p *sqlParser) acceptPunct(s string) bool {
	if p.isPunct(s) {
		p.pos++
		return true
	}
	return false
}

func (p *sqlParser) acceptWord(w string) bool {
	if p.isWord(w) {
		p.pos++
		return true
	}
	return false
}

func (p *sqlParser) expectPunct(s string) {
	if !p.acceptPunct(s) {
		p.fail("expected " + s)
	}
}

func (p *sqlParser) expectWord(w string) {
	if !p.acceptWord(w) {
		p.fail("expected " + w)
	}
}

// binary operator priority (ClickHouse), 0 = not a binary operator
func (p *sqlParser) binPrio() (string, int) {
	t := p.peek()
	if t.Kind == SQLPunct {
		switch t.Text {
		case "*", "/", "%":
			return t.Text, 12
		case "+", "-":
			return t.Text, 11
		case "||":
			return t.Text, 10
		case "=", "==", "!=", "<>", "<", "<=", ">", ">=":
			return t.Text, 9
		}
	}
	if t.Kind == SQLWord {
		switch upper(t.Text) {
		case "AND":
			return "AND", 4
		case "OR":
			return "OR", 3
		case "IN":
			return "IN", 9
		case "LIKE":
			return "LIKE", 9
		case "IS":
			return "IS", 6
		}
	}
	return "", 0
}

// expr parses an expression whose binary operators all have priority >= min.
func (p *sqlParser) expr(min int) *SQLNode {
	x := p.unary(min)
	for p.err == "" {
		op, prio := p.binPrio()
		if prio == 0 || prio < min {
			break
		}
		p.pos++
		switch op {
		case "IN":
			p.expectPunct("(")
			n := &SQLNode{Op: "in", Kids: []*SQLNode{x}}
			n.Kids = append(n.Kids, p.expr(0))
			for p.err == "" && p.acceptPunct(",") {
				n.Kids = append(n.Kids, p.expr(0))
			}
			p.expectPunct(")")
			x = n
		case "IS":
			not := p.acceptWord("NOT")
			p.expectWord("NULL")
			if not {
				x = &SQLNode{Op: "isnotnull", Kids: []*SQLNode{x}}
			} else {
				x = &SQLNode{Op: "isnull", Kids: []*SQLNode{x}}
			}
		default:
			y := p.expr(prio + 1)
			if op == "==" {
				op = "="
			}
			if op == "!=" {
				op = "<>"
			}
			x = &SQLNode{Op: "bin", Text: op, Kids: []*SQLNode{x, y}}
		}
	}
	return x
}

func (p *sqlParser) unary(min int) *SQLNode {
	if p.isWord("NOT") {
		p.pos++
		return &SQLNode{Op: "not", Kids: []*SQLNode{p.expr(5)}}
	}
	if p.isPunct("-") || p.isPunct("+") {
		op := "neg"
		if p.isPunct("+") {
			op = "pos"
		}
		p.pos++
		return &SQLNode{Op: op, Kids: []*SQLNode{p.expr(13)}}
	}
	return p.postfix()
}

func (p *sqlParser) postfix() *SQLNode {
	x := p.primary()
	for p.err == "" && p.isPunct("[") {
		p.pos++
		i := p.expr(0)
		p.expectPunct("]")
		x = &SQLNode{Op: "index", Kids: []*SQLNode{x, i}}
	}
	return x
}

func (p *sqlParser) primary() *SQLNode {
	t := p.peek()
	switch t.Kind {
	case SQLNumber:
		p.pos++
		return &SQLNode{Op: "num", Text: t.Text}
	case SQLString:
		p.pos++
		return &SQLNode{Op: "str", Text: t.Val}
	case SQLParam:
		if p.pos+1 < len(p.toks) && p.toks[p.pos+1].Kind == SQLPunct && p.toks[p.pos+1].Text == "(" && t.Text != "?" {
			return p.call(t.Text) // a pass-through function whose PQL name starts with $
		}
		p.pos++
		return &SQLNode{Op: "param", Text: t.Text}
	case SQLQIdent:
		p.pos++
		n := &SQLNode{Op: "col", Parts: []string{t.Val}}
		for p.isPunct(".") && p.pos+1 < len(p.toks) && p.toks[p.pos+1].Kind == SQLQIdent {
			p.pos++
			n.Parts = append(n.Parts, p.toks[p.pos].Val)
			p.pos++
		}
		return n
	case SQLPunct:
		if t.Text == "(" {
			p.pos++
			x := p.expr(0)
			p.expectPunct(")")
			return x
		}
		if t.Text == "*" {
			p.pos++
			return &SQLNode{Op: "star"}
		}
	case SQLWord:
		w := upper(t.Text)
		if p.pos+1 < len(p.toks) && p.toks[p.pos+1].Kind == SQLPunct && p.toks[p.pos+1].Text == "(" {
			// any word directly followed by '(' is a function call: function names are
			// passed through by name, whatever they are called
			return p.call(t.Text)
		}
		switch w {
		case "TRUE":
			p.pos++
			return &SQLNode{Op: "true"}
		case "FALSE":
			p.pos++
			return &SQLNode{Op: "false"}
		case "NULL":
			p.pos++
			return &SQLNode{Op: "null"}
		case "CURRENT_TIMESTAMP":
			p.pos++
			return &SQLNode{Op: "now"}
		case "CASE":
			p.pos++
			p.expectWord("WHEN")
			c := p.expr(0)
			p.expectWord("THEN")
			a := p.expr(0)
			p.expectWord("ELSE")
			b := p.expr(0)
			p.expectWord("END")
			return &SQLNode{Op: "case", Kids: []*SQLNode{c, a, b}}
		case "SELECT", "FROM", "WHERE", "AS", "ON", "AND", "OR", "NOT", "IN", "IS", "THEN", "ELSE", "END", "WHEN", "GROUP", "ORDER", "BY", "LIMIT", "JOIN", "LEFT", "WITH", "ASC", "DESC", "NULLS", "DISTINCT", "FILTER":
			p.fail("keyword where an operand is expected")
			return &SQLNode{Op: "null"}
		}
		p.fail("bare word is neither a function call nor a known constant")
		return &SQLNode{Op: "null"}
	}
	p.fail("operand expected")
	return &SQLNode{Op: "null"}
}

// call parses name '(' args ')' [FILTER (WHERE e)] with the cursor on the name.
func (p *sqlParser) call(name string) *SQLNode {
	p.pos += 2
	n := &SQLNode{Op: "call", Text: name}
	if !p.isPunct(")") {
		n.Kids = append(n.Kids, p.expr(0))
		for p.err == "" && p.acceptPunct(",") {
			n.Kids = append(n.Kids, p.expr(0))
		}
	}
	p.expectPunct(")")
	if p.isWord("FILTER") && p.pos+1 < len(p.toks) && p.toks[p.pos+1].Text == "(" {
		p.pos++
		p.expectPunct("(")
		p.expectWord("WHERE")
		n.Filter = p.expr(0)
		p.expectPunct(")")
	}
	return n
}

// ---- statements -------------------------------------------------------------

// SQLItem is one select-list item.
type SQLItem struct {
	Star  bool
	X     *SQLNode
	Alias string
}

// SQLOrder is one ORDER BY term.
type SQLOrder struct {
	X          *SQLNode
	Desc       bool
	NullsFirst bool
	HasDir     bool
	HasNulls   bool
}

// SQLSource is a FROM/JOIN source.
type SQLSource struct {
	Table string     // quoted name
	Sub   *SQLSelect // or parenthesised select
	Alias string
}

// SQLSelect is one SELECT.
type SQLSelect struct {
	Distinct bool
	Items    []SQLItem
	From     SQLSource
	HasJoin  bool
	LeftJoin bool
	Join     SQLSource
	On       *SQLNode
	Where    *SQLNode
	GroupBy  []*SQLNode
	OrderBy  []SQLOrder
	Limit    *SQLNode
}

// SQLCTE is one common table expression.
type SQLCTE struct {
	Name string
	Sel  *SQLSelect
}

// SQLStmt is a whole statement.
type SQLStmt struct {
	CTEs []SQLCTE
	Sel  *SQLSelect
}

func (p *sqlParser) source() SQLSource {
	var s SQLSource
	t := p.peek()
	switch {
	case t.Kind == SQLQIdent:
		p.pos++
		s.Table = t.Val
	case p.isPunct("("):
		p.pos++
		s.Sub = p.selectStmt()
		p.expectPunct(")")
	default:
		p.fail("table name or sub-select expected")
	}
	if p.acceptWord("AS") {
		a := p.peek()
		if a.Kind == SQLQIdent {
			p.pos++
			s.Alias = a.Val
		} else {
			p.fail("alias expected")
		}
	}
	return s
}

func (p *sqlParser) selectStmt() *SQLSelect {
	sel := &SQLSelect{}
	p.expectWord("SELECT")
	if p.acceptWord("DISTINCT") {
		sel.Distinct = true
	}
	for p.err == "" {
		var it SQLItem
		if p.isPunct("*") {
			p.pos++
			it.Star = true
		} else {
			it.X = p.expr(0)
			if p.acceptWord("AS") {
				a := p.peek()
				if a.Kind == SQLQIdent {
					p.pos++
					it.Alias = a.Val
				} else {
					p.fail("column alias expected")
				}
			}
		}
		sel.Items = append(sel.Items, it)
		if !p.acceptPunct(",") {
			break
		}
	}
	p.expectWord("FROM")
	sel.From = p.source()
	if p.isWord("LEFT") || p.isWord("JOIN") {
		sel.HasJoin = true
		if p.acceptWord("LEFT") {
			sel.LeftJoin = true
		}
		p.expectWord("JOIN")
		sel.Join = p.source()
		p.expectWord("ON")
		sel.On = p.expr(0)
	}
	if p.acceptWord("WHERE") {
		sel.Where = p.expr(0)
	}
	if p.isWord("GROUP") {
		p.pos++
		p.expectWord("BY")
		sel.GroupBy = append(sel.GroupBy, p.expr(0))
		for p.err == "" && p.acceptPunct(",") {
			sel.GroupBy = append(sel.GroupBy, p.expr(0))
		}
	}
	if p.isWord("ORDER") {
		p.pos++
		p.expectWord("BY")
		for p.err == "" {
			o := SQLOrder{X: p.expr(0)}
			if p.acceptWord("ASC") {
				o.HasDir = true
			} else if p.acceptWord("DESC") {
				o.HasDir = true
				o.Desc = true
			}
			if p.acceptWord("NULLS") {
				o.HasNulls = true
				if p.acceptWord("FIRST") {
					o.NullsFirst = true
				} else {
					p.expectWord("LAST")
				}
			}
			sel.OrderBy = append(sel.OrderBy, o)
			if !p.acceptPunct(",") {
				break
			}
		}
	}
	if p.acceptWord("LIMIT") {
		sel.Limit = p.expr(0)
	}
	return sel
}

// SQLParseStatement parses "[WITH name AS (select), ...] select ;" and
// returns an error text if the token list is not exactly one such statement.
func SQLParseStatement(toks []SQLTok) (*SQLStmt, string) {
	for _, t := range toks {
		if t.Kind == SQLError {
			return nil, "unterminated or illegal token"
		}
		if t.Kind == SQLComment {
			return nil, "comment in the output"
		}
	}
	p := &sqlParser{toks: toks}
	st := &SQLStmt{}
	if p.acceptWord("WITH") {
		for p.err == "" {
			t := p.peek()
			if t.Kind != SQLQIdent {
				p.fail("CTE name expected")
				break
			}
			p.pos++
			p.expectWord("AS")
			p.expectPunct("(")
			sel := p.selectStmt()
			p.expectPunct(")")
			st.CTEs = append(st.CTEs, SQLCTE{Name: t.Val, Sel: sel})
			if !p.acceptPunct(",") {
				break
			}
		}
	}
	st.Sel = p.selectStmt()
	p.expectPunct(";")
	if p.err == "" && p.pos < len(p.toks) {
		p.fail("text after the terminating semicolon")
	}
	if p.err != "" {
		return nil, p.err
	}
	return st, ""
}

// SQLParseExpr parses a complete expression.
func SQLParseExpr(toks []SQLTok) (*SQLNode, string) {
	p := &sqlParser{toks: toks}
	x := p.expr(0)
	if p.err == "" && p.pos < len(p.toks) {
		p.fail("text after the expression")
	}
	return x, p.err
}
