package h

// Reference parser for the documented PQL grammar (DESIGN §4.2), written as a
// plain recursive-descent recogniser by grammar levels, independently of
// parser/parser.go (which uses precedence climbing over bracket-split
// sub-parsers). It builds parser AST node types without positions; optional
// parts are marked present by a valid (0,0) span and absent by (-1,-1).
// Oracle of C07.

import (
	"github.com/runreveal/pql/parser"
)

var present = parser.Span{Start: 0, End: 0}
var absent = parser.Span{Start: -1, End: -1}

type refParser struct {
	toks []parser.Token
	pos  int
	ok   bool
}

func (p *refParser) peekKind() parser.TokenKind {
	if p.pos < len(p.toks) {
		return p.toks[p.pos].Kind
	}
	return 0
}

func (p *refParser) fail() { p.ok = false }

func (p *refParser) isWord(w string) bool {
	return p.pos < len(p.toks) && p.toks[p.pos].Kind == parser.TokenIdentifier && p.toks[p.pos].Value == w
}

func (p *refParser) isWord2(a, b string) bool {
	return p.pos < len(p.toks) && p.toks[p.pos].Kind == parser.TokenIdentifier && (p.toks[p.pos].Value == a || p.toks[p.pos].Value == b)
}

func (p *refParser) accept(k parser.TokenKind) bool {
	if p.pos < len(p.toks) && p.toks[p.pos].Kind == k {
		p.pos++
		return true
	}
	return false
}

func (p *refParser) expect(k parser.TokenKind) {
	if !p.accept(k) {
		p.fail()
	}
}

func (p *refParser) ident() *parser.Ident {
	if p.pos < len(p.toks) {
		t := p.toks[p.pos]
		if t.Kind == parser.TokenIdentifier || t.Kind == parser.TokenQuotedIdentifier {
			p.pos++
			return &parser.Ident{Name: t.Value, Quoted: t.Kind == parser.TokenQuotedIdentifier}
		}
	}
	p.fail()
	return &parser.Ident{}
}

// ---- expressions, one function per precedence level -------------------------

func (p *refParser) expr() parser.Expr { return p.orExpr() }

func (p *refParser) orExpr() parser.Expr {
	x := p.andExpr()
	for p.ok && p.peekKind() == parser.TokenOr {
		p.pos++
		y := p.andExpr()
		x = &parser.BinaryExpr{X: x, Op: parser.TokenOr, Y: y}
	}
	return x
}

func (p *refParser) andExpr() parser.Expr {
	x := p.cmpExpr()
	for p.ok && p.peekKind() == parser.TokenAnd {
		p.pos++
		y := p.cmpExpr()
		x = &parser.BinaryExpr{X: x, Op: parser.TokenAnd, Y: y}
	}
	return x
}

func isCmp(k parser.TokenKind) bool {
	return k == parser.TokenEq || k == parser.TokenNE || k == parser.TokenLT || k == parser.TokenLE ||
		k == parser.TokenGT || k == parser.TokenGE || k == parser.TokenCaseInsensitiveEq || k == parser.TokenCaseInsensitiveNE
}

func (p *refParser) cmpExpr() parser.Expr {
	x := p.addExpr()
	for p.ok {
		k := p.peekKind()
		if k == parser.TokenIn {
			p.pos++
			p.expect(parser.TokenLParen)
			var vals []parser.Expr
			vals = append(vals, p.expr())
			for p.ok && p.accept(parser.TokenComma) {
				vals = append(vals, p.expr())
			}
			p.expect(parser.TokenRParen)
			x = &parser.InExpr{X: x, Vals: vals}
			continue
		}
		if !isCmp(k) {
			break
		}
		p.pos++
		y := p.addExpr()
		x = &parser.BinaryExpr{X: x, Op: k, Y: y}
	}
	return x
}

func (p *refParser) addExpr() parser.Expr {
	x := p.mulExpr()
	for p.ok {
		k := p.peekKind()
		if k != parser.TokenPlus && k != parser.TokenMinus {
			break
		}
		p.pos++
		y := p.mulExpr()
		x = &parser.BinaryExpr{X: x, Op: k, Y: y}
	}
	return x
}

func (p *refParser) mulExpr() parser.Expr {
	x := p.unary()
	for p.ok {
		k := p.peekKind()
		if k != parser.TokenStar && k != parser.TokenSlash && k != parser.TokenMod {
			break
		}
		p.pos++
		y := p.unary()
		x = &parser.BinaryExpr{X: x, Op: k, Y: y}
	}
	return x
}

func (p *refParser) unary() parser.Expr {
	k := p.peekKind()
	if k == parser.TokenPlus || k == parser.TokenMinus {
		p.pos++
		return &parser.UnaryExpr{Op: k, X: p.postfix()}
	}
	return p.postfix()
}

func (p *refParser) postfix() parser.Expr {
	x := p.primary()
	if p.ok && p.peekKind() == parser.TokenLBracket {
		p.pos++
		idx := p.expr()
		p.expect(parser.TokenRBracket)
		x = &parser.IndexExpr{X: x, Index: idx}
		if p.peekKind() == parser.TokenLBracket {
			p.fail() // chained indexing is not in the reference grammar
		}
	}
	return x
}

func (p *refParser) primary() parser.Expr {
	if p.pos >= len(p.toks) {
		p.fail()
		return nil
	}
	t := p.toks[p.pos]
	switch t.Kind {
	case parser.TokenNumber, parser.TokenString:
		p.pos++
		return &parser.BasicLit{Kind: t.Kind, Value: t.Value}
	case parser.TokenLParen:
		p.pos++
		x := p.expr()
		p.expect(parser.TokenRParen)
		return &parser.ParenExpr{X: x}
	case parser.TokenIdentifier, parser.TokenQuotedIdentifier:
		first := p.ident()
		q := &parser.QualifiedIdent{Parts: []*parser.Ident{first}}
		for p.ok && p.peekKind() == parser.TokenDot {
			p.pos++
			q.Parts = append(q.Parts, p.ident())
		}
		if len(q.Parts) == 1 && !first.Quoted && p.peekKind() == parser.TokenLParen {
			p.pos++
			call := &parser.CallExpr{Func: &parser.Ident{Name: first.Name}}
			if p.peekKind() != parser.TokenRParen {
				call.Args = append(call.Args, p.expr())
				for p.ok && p.accept(parser.TokenComma) {
					if p.peekKind() == parser.TokenRParen {
						break // one trailing comma is allowed
					}
					call.Args = append(call.Args, p.expr())
				}
			}
			p.expect(parser.TokenRParen)
			return call
		}
		return q
	}
	p.fail()
	return nil
}

// ---- tabular expressions ---------------------------------------------------

func (p *refParser) sortTerm() *parser.SortTerm {
	t := &parser.SortTerm{X: p.expr(), AscDescSpan: absent, NullsSpan: absent}
	if !p.ok {
		return t
	}
	if p.isWord("asc") {
		p.pos++
		t.Asc, t.NullsFirst, t.AscDescSpan = true, true, present
	} else if p.isWord("desc") {
		p.pos++
		t.Asc, t.NullsFirst, t.AscDescSpan = false, false, present
	}
	if p.isWord("nulls") {
		p.pos++
		switch {
		case p.isWord("first"):
			p.pos++
			t.NullsFirst = true
		case p.isWord("last"):
			p.pos++
			t.NullsFirst = false
		default:
			p.fail()
		}
		t.NullsSpan = present
	}
	return t
}

func (p *refParser) rowCount() parser.Expr {
	x := p.expr()
	if lit, ok := x.(*parser.BasicLit); ok && p.ok {
		if lit.Kind != parser.TokenNumber {
			p.fail()
		} else {
			for i := 0; i < len(lit.Value); i++ {
				c := lit.Value[i]
				if c == '.' || c == 'e' || c == 'E' {
					p.fail()
				}
			}
		}
	}
	return x
}

// namedExpr parses [ident '='] expr.
func (p *refParser) namedExpr() (*parser.Ident, parser.Expr) {
	if p.pos+1 < len(p.toks) {
		k := p.toks[p.pos].Kind
		if (k == parser.TokenIdentifier || k == parser.TokenQuotedIdentifier) && p.toks[p.pos+1].Kind == parser.TokenAssign {
			name := p.ident()
			p.pos++
			return name, p.expr()
		}
	}
	return nil, p.expr()
}

func (p *refParser) atOperatorEnd() bool {
	return p.pos >= len(p.toks) || p.toks[p.pos].Kind == parser.TokenPipe || p.toks[p.pos].Kind == parser.TokenSemi || p.toks[p.pos].Kind == parser.TokenRParen
}

func (p *refParser) operator() parser.TabularOperator {
	if p.pos >= len(p.toks) || p.toks[p.pos].Kind != parser.TokenIdentifier {
		p.fail()
		return nil
	}
	name := p.toks[p.pos].Value
	p.pos++
	switch name {
	case "count":
		return &parser.CountOperator{}
	case "where", "filter":
		return &parser.WhereOperator{Predicate: p.expr()}
	case "sort", "order":
		p.expect(parser.TokenBy)
		op := &parser.SortOperator{}
		op.Terms = append(op.Terms, p.sortTerm())
		for p.ok && p.accept(parser.TokenComma) {
			op.Terms = append(op.Terms, p.sortTerm())
		}
		return op
	case "take", "limit":
		return &parser.TakeOperator{RowCount: p.rowCount()}
	case "top":
		op := &parser.TopOperator{By: present}
		op.RowCount = p.rowCount()
		p.expect(parser.TokenBy)
		if p.ok {
			op.Col = p.sortTerm()
		}
		return op
	case "project":
		op := &parser.ProjectOperator{}
		for {
			c := &parser.ProjectColumn{Name: p.ident(), Assign: absent}
			if p.ok && p.accept(parser.TokenAssign) {
				c.Assign = present
				c.X = p.expr()
			}
			op.Cols = append(op.Cols, c)
			if !p.ok || !p.accept(parser.TokenComma) {
				break
			}
		}
		return op
	case "extend":
		op := &parser.ExtendOperator{}
		for {
			n, x := p.namedExpr()
			op.Cols = append(op.Cols, &parser.ExtendColumn{Name: n, X: x})
			if !p.ok || !p.accept(parser.TokenComma) {
				break
			}
		}
		return op
	case "summarize":
		op := &parser.SummarizeOperator{By: absent}
		if p.peekKind() != parser.TokenBy {
			for {
				n, x := p.namedExpr()
				op.Cols = append(op.Cols, &parser.SummarizeColumn{Name: n, X: x})
				if !p.ok || !p.accept(parser.TokenComma) {
					break
				}
			}
		}
		if p.ok && p.accept(parser.TokenBy) {
			op.By = present
			for {
				n, x := p.namedExpr()
				op.GroupBy = append(op.GroupBy, &parser.SummarizeColumn{Name: n, X: x})
				if !p.ok || !p.accept(parser.TokenComma) {
					break
				}
			}
		}
		return op
	case "join":
		op := &parser.JoinOperator{}
		if p.isWord("kind") {
			p.pos++
			p.expect(parser.TokenAssign)
			if p.pos < len(p.toks) && p.toks[p.pos].Kind == parser.TokenIdentifier {
				f := p.toks[p.pos].Value
				if f != "inner" && f != "innerunique" && f != "leftouter" {
					p.fail()
				}
				op.Flavor = &parser.Ident{Name: f}
				p.pos++
			} else {
				p.fail()
			}
		}
		p.expect(parser.TokenLParen)
		if p.ok {
			op.Right = p.tabular()
		}
		p.expect(parser.TokenRParen)
		if p.ok && p.isWord("on") {
			p.pos++
		} else {
			p.fail()
		}
		if p.ok {
			op.Conditions = append(op.Conditions, p.expr())
			for p.ok && p.accept(parser.TokenComma) {
				op.Conditions = append(op.Conditions, p.expr())
			}
		}
		return op
	case "as":
		return &parser.AsOperator{Name: p.ident()}
	case "render":
		op := &parser.RenderOperator{ChartType: p.ident(), With: absent}
		if p.ok && p.isWord("with") {
			p.pos++
			op.With = present
			p.expect(parser.TokenLParen)
			for p.ok {
				pr := &parser.RenderProperty{Name: p.ident()}
				p.expect(parser.TokenAssign)
				if p.ok {
					pr.Value = p.expr()
				}
				op.Props = append(op.Props, pr)
				if !p.ok || !p.accept(parser.TokenComma) {
					break
				}
			}
			p.expect(parser.TokenRParen)
		}
		return op
	}
	p.fail()
	return nil
}

func (p *refParser) tabular() *parser.TabularExpr {
	x := &parser.TabularExpr{Source: &parser.TableRef{Table: p.ident()}}
	for p.ok && p.accept(parser.TokenPipe) {
		op := p.operator()
		if p.ok && !p.atOperatorEnd() {
			p.fail()
		}
		x.Operators = append(x.Operators, op)
	}
	return x
}

func (p *refParser) statement() parser.Statement {
	if p.isWord("let") {
		p.pos++
		st := &parser.LetStatement{Name: p.ident()}
		p.expect(parser.TokenAssign)
		if p.ok {
			st.X = p.expr()
		}
		return st
	}
	return p.tabular()
}

// RefParse parses a token list by the reference grammar. ok=false means the
// sequence is not a program of the reference grammar (no claim is made).
func RefParse(toks []parser.Token) (stmts []parser.Statement, ok bool) {
	p := &refParser{toks: toks, ok: true}
	for {
		if p.pos < len(p.toks) && p.toks[p.pos].Kind != parser.TokenSemi {
			st := p.statement()
			if !p.ok {
				return nil, false
			}
			stmts = append(stmts, st)
		}
		if p.pos >= len(p.toks) {
			return stmts, true
		}
		if !p.accept(parser.TokenSemi) {
			return nil, false
		}
	}
}
