package h

import (
	"github.com/runreveal/pql/parser"

	"verifh/verif"
)

// isNilNode reports whether the interface holds no node (nil interface or typed nil pointer).
func isNilNode(n parser.Node) bool {
	switch n := n.(type) {
	case nil:
		return true
	case *parser.Ident:
		return n == nil
	case *parser.QualifiedIdent:
		return n == nil
	case *parser.TabularExpr:
		return n == nil
	case *parser.TableRef:
		return n == nil
	case *parser.CountOperator:
		return n == nil
	case *parser.WhereOperator:
		return n == nil
	case *parser.SortOperator:
		return n == nil
	case *parser.SortTerm:
		return n == nil
	case *parser.TakeOperator:
		return n == nil
	case *parser.TopOperator:
		return n == nil
	case *parser.ProjectOperator:
		return n == nil
	case *parser.ProjectColumn:
		return n == nil
	case *parser.ExtendOperator:
		return n == nil
	case *parser.ExtendColumn:
		return n == nil
	case *parser.SummarizeOperator:
		return n == nil
	case *parser.SummarizeColumn:
		return n == nil
	case *parser.JoinOperator:
		return n == nil
	case *parser.AsOperator:
		return n == nil
	case *parser.RenderOperator:
		return n == nil
	case *parser.RenderProperty:
		return n == nil
	case *parser.BinaryExpr:
		return n == nil
	case *parser.UnaryExpr:
		return n == nil
	case *parser.InExpr:
		return n == nil
	case *parser.ParenExpr:
		return n == nil
	case *parser.BasicLit:
		return n == nil
	case *parser.CallExpr:
		return n == nil
	case *parser.IndexExpr:
		return n == nil
	case *parser.LetStatement:
		return n == nil
	}
	return false
}

func nodeIndex(nodes []PNode, n parser.Node) int {
	for i, p := range nodes {
		if p.Node == n {
			return i
		}
	}
	return -1
}

func isDescendant(nodes []PNode, i, anc int) bool {
	for i >= 0 {
		i = nodes[i].Parent
		if i == anc {
			return true
		}
	}
	return false
}

// CheckWalk asserts the traversal contract on one successfully parsed statement.
func CheckWalk(st parser.Statement) { checkWalk(st, 1<<30) }

func walkInterrupted(st parser.Statement, j int) {
	defer func() { recover() }()
	calls := 0
	parser.Walk(st, func(n parser.Node) bool {
		if calls == j {
			panic("visitor gives up")
		}
		calls++
		return true
	})
}

// checkWalk is CheckWalk with the arbitrary cut position drawn among the first maxJ visits.
func checkWalk(st parser.Statement, maxJ int) {
	_, nodes, bad := Reprint(st)
	if bad != "" {
		return // C08's subject
	}
	var visited []parser.Node
	sawNil := false
	parser.Walk(st, func(n parser.Node) bool {
		if isNilNode(n) {
			sawNil = true
		}
		visited = append(visited, n)
		return true
	})
	verif.Assert(!sawNil, "Walk called the visitor with a nil node")
	if sawNil {
		return
	}
	// every visited node belongs to the tree, exactly once, parents first
	order := make([]int, len(nodes)) // position in the visit sequence, -1 = not visited
	for i := range order {
		order[i] = -1
	}
	for pos, n := range visited {
		i := nodeIndex(nodes, n)
		verif.Assert(i >= 0, "Walk visited something that is not a node of the tree")
		if i < 0 {
			return
		}
		verif.Assert(order[i] < 0, "Walk visited a node twice")
		order[i] = pos
	}
	for i, n := range nodes {
		if n.Required {
			verif.Assert(order[i] >= 0, "Walk did not visit an identifier or expression node")
		}
		if order[i] >= 0 && n.Parent >= 0 && order[n.Parent] >= 0 {
			verif.Assert(order[n.Parent] < order[i], "Walk visited a child before its parent")
		}
	}
	verif.Cover("walk-checked")
	// returning false on the j-th call skips exactly that node's descendants
	if len(visited) == 0 {
		return
	}
	nj := len(visited)
	if nj > maxJ {
		nj = maxJ
	}
	j := verif.Concrete(verif.IntRange(0, nj))
	cut := nodeIndex(nodes, visited[j])
	var second []parser.Node
	calls := 0
	parser.Walk(st, func(n parser.Node) bool {
		second = append(second, n)
		calls++
		return calls-1 != j
	})
	var want []parser.Node
	for _, n := range visited {
		if !isDescendant(nodes, nodeIndex(nodes, n), cut) {
			want = append(want, n)
		}
	}
	verif.Assert(len(second) == len(want), "returning false does not skip exactly the node's descendants")
	if len(second) == len(want) {
		for i := range want {
			verif.Assert(second[i] == want[i], "returning false changes which other nodes are visited")
		}
	}
	verif.Cover("skip-checked")
	// a traversal abandoned by a panicking visitor leaves nothing behind: the next
	// traversal visits exactly the same nodes
	walkInterrupted(st, j)
	var third []parser.Node
	parser.Walk(st, func(n parser.Node) bool {
		third = append(third, n)
		return true
	})
	verif.Assert(len(third) == len(visited), "a traversal after an abandoned one visits a different number of nodes")
	if len(third) == len(visited) {
		for i := range third {
			verif.Assert(third[i] == visited[i], "a traversal after an abandoned one visits different nodes")
		}
	}
	verif.Cover("history-checked")
}

// H_C11deep checks the traversal on the deep and wide program families of C12 (two
// arbitrary tokens inside), the cut position among the first 6 visits.
func H_C11deep(f, n int) {
	prog := deepProgram(f, n)
	slots := make([]int, len(prog))
	for i, l := range prog {
		slots[i] = vocabIndex(deepVocab, l)
	}
	slots[len(slots)/3] = -1
	slots[2*len(slots)/3] = -1
	stmts, err := parser.Parse(verif.TokenSeq(deepVocab, slots))
	if err != nil {
		verif.Cover("rejected")
		return
	}
	verif.Cover("accepted")
	for _, st := range stmts {
		checkWalk(st, 6)
	}
	verif.Cover("deep-walk")
}

// H_C11 checks the traversal on every accepted sequence of k tokens.
func H_C11(k, vocab int) {
	src := verif.Tokens(k, Vocab(vocab))
	stmts, err := parser.Parse(src)
	if err != nil {
		verif.Cover("rejected")
		return
	}
	verif.Cover("accepted")
	for _, st := range stmts {
		CheckWalk(st)
	}
}

// Seeds11 are further programs for the traversal: parentheses directly inside
// every bracket kind (subscripts, call arguments, in-lists, nested parentheses).
var Seeds11 = [][]string{
	{"T", "|", "where", "a", "[", "(", "b", ")", "]", "==", "1", "and", "f", "(", "(", "a", ")", ")", "[", "(", "(", "1", ")", ")", "]", "in", "(", "(", "1", ")", ",", "(", "b", ")", "[", "(", "'s'", ")", "]", ")", "|", "project", "b", "=", "(", "a", "[", "(", "'s'", ")", "]", ")"},
}

// H_C11seed checks the traversal on the seed programs and their accepted corruptions.
func H_C11seed(s, n int) {
	vocab := Vocab(0)
	var seed []string
	if s < len(Seeds) {
		seed = Seeds[s]
	} else {
		seed = Seeds11[s-len(Seeds)]
	}
	slots := make([]int, len(seed))
	for i, l := range seed {
		slots[i] = vocabIndex(vocab, l)
	}
	for c := 0; c < n; c++ {
		kind := verif.Concrete(verif.IntRange(0, 6))
		p := verif.Concrete(verif.IntRange(0, len(slots)))
		slots = corrupt(slots, kind, p)
	}
	src := verif.TokenSeq(vocab, slots)
	stmts, err := parser.Parse(src)
	if err != nil {
		verif.Cover("rejected")
		return
	}
	verif.Cover("accepted")
	for _, st := range stmts {
		CheckWalk(st)
	}
}
