package h

import (
	"github.com/runreveal/pql/parser"

	"verifh/verif"
)

// Alphabets are the focused byte sets of the byte-hole input model; index 0 is the full byte range.
var Alphabets = []string{
	0:  "",
	1:  "019.eExX+-af",                                 // numbers
	2:  "'\"\\nt\nx",                                   // strings and escapes
	3:  "az_$`/\n; ",                                   // names, quoted names, comments
	4:  "=!~<>|()[]",                                   // operators and brackets
	5:  ";'\"`/\\\na1= ",                               // statement splitting
	11: ";'/\r\n a",                                    // lone CR inside strings and comments
	6:  "a1 \t\n.,-+*/%&#\x00\x80\xc2\xa0\xe2\x80\xa8", // layout, odd bytes, multi-byte white space
	8:  "'\\t\na",                                      // two string literals with escapes on two lines
	7:  ";()[]|a1 ,'",                                  // statement splitting next to brackets
	10: "1e+-.;x ",                                     // numbers with exponents next to semicolons
	9:  "'\\\xc3\xa9a`",                                // escapes in front of multi-byte characters
}

// GenBytes returns n arbitrary bytes over alphabet number alpha.
func GenBytes(n, alpha int) string {
	if alpha == 0 {
		return verif.Bytes(n)
	}
	return verif.BytesIn(n, Alphabets[alpha])
}

func itoa(v int) string {
	if v < 0 {
		return "-" + utoa(uint64(-v))
	}
	return utoa(uint64(v))
}

// DumpTokens renders tokens for observation (error texts omitted).
func DumpTokens(toks []parser.Token) string {
	s := ""
	for _, t := range toks {
		s += itoa(int(t.Kind)) + "[" + itoa(t.Span.Start) + "," + itoa(t.Span.End) + ")"
		if t.Kind != parser.TokenError {
			s += "<" + t.Value + ">"
		}
		s += " "
	}
	return s
}

// gapOK reports whether s consists only of white space and // comments.
func gapOK(s string) bool {
	toks, _ := RefScan(s)
	return len(toks) == 0
}

// CompareTokens asserts that got equals the reference tokens.
func CompareTokens(got []parser.Token, want []RTok, stop int) {
	limit := len(want)
	if stop >= 0 {
		limit = stop + 1
		verif.Assert(len(got) >= limit, "lexer produced fewer tokens than the token language prescribes")
	} else {
		verif.Assert(len(got) == len(want), "lexer token count differs from the token language")
	}
	for i := 0; i < limit && i < len(got); i++ {
		g, w := got[i], want[i]
		verif.Assert(g.Kind == w.Kind, "token kind differs from the token language")
		verif.Assert(g.Span.Start == w.Start, "token start differs from the token language")
		if i == stop {
			break
		}
		verif.Assert(g.Span.End == w.End, "token end differs from the token language")
		if w.Kind != parser.TokenError && w.CheckValue {
			verif.Assert(g.Value == w.Value, "token value differs from the token language")
		}
	}
}

// H_C09 checks the lexer against the token language on n arbitrary bytes.
func H_C09(n, alpha int) {
	CheckLexer(GenBytes(n, alpha), alpha == 1)
}

// longFamilies frame few arbitrary bytes ('?', drawn from the family's alphabet) with a
// run of one repeated character of arbitrary length: boundary numerics (16/17 hex
// digits, 2^63, 2^64, leading zeros, long fractions and exponents), long strings,
// names and comments with arbitrary bytes at either end.
var longFamilies = []struct {
	Pre   string
	Mid   byte
	Post  string
	Alpha string
	Split bool // case-split the arbitrary bytes to concrete values (64-bit decimal conversion stalls bit-blasting)
}{
	0:  {"0x?", '0', "?", "0178fFg", true},
	1:  {"0x?", 'f', "?", "0178fFg", true},
	2:  {"0x0", '0', "??", "018fx", true},
	3:  {"?", '0', "?", "0129.e", true},
	4:  {"1844674407370955161", '0', "??", "0156.", true},
	5:  {"0.", '0', "?e?", "019-", true},
	6:  {"?e", '9', "?", "019+-.", true},
	7:  {"'?", 'a', "?'", "'\\a\xc3\xa9\n", false},
	8:  {"`?", 'a', "?`", "`a\xc3\xa9\n'", false},
	9:  {"?", 'a', "?", "a_$1 `", false},
	10: {"//?", 'a', "?\n?", "a;/\n\r", false},
	11: {"922337203685477580", '0', "??", "0789.", true},
	12: {"?", '9', "?", "0189.e", true},
	13: {"0X?", 'F', "?", "0178fFg", true},
	14: {"'", 'a', "??", "a\xc3\xa9'\\", false}, // mostly unterminated strings ending in multi-byte or stray bytes
	15: {"`", 'a', "??", "a\xc3\xa9`\n", false},
	16: {"\"?", '\xa9', "?", "a\xc3\xa9\"", false}, // runs of continuation bytes
	17: {"?", '0', "e?", "0159.", true},            // zero mantissas with an exponent
	18: {"?", '0', "?e+?", "0159.", true},
}

// LongFamilies is the number of families of H_C09long.
const LongFamilies = 19

func longSource(f, n int) string {
	fam := longFamilies[f]
	holes := 0
	for i := 0; i < len(fam.Pre); i++ {
		if fam.Pre[i] == '?' {
			holes++
		}
	}
	for i := 0; i < len(fam.Post); i++ {
		if fam.Post[i] == '?' {
			holes++
		}
	}
	hb := verif.BytesIn(holes, fam.Alpha)
	if fam.Split {
		hb = verif.ConcreteStr(hb)
	}
	h := 0
	src := ""
	for i := 0; i < len(fam.Pre); i++ {
		if fam.Pre[i] == '?' {
			src += hb[h : h+1]
			h++
		} else {
			src += fam.Pre[i : i+1]
		}
	}
	for i := 0; i < n; i++ {
		src += string([]byte{fam.Mid})
	}
	for i := 0; i < len(fam.Post); i++ {
		if fam.Post[i] == '?' {
			src += hb[h : h+1]
			h++
		} else {
			src += fam.Post[i : i+1]
		}
	}
	return src
}

// H_C09long checks the lexer on family f with a run of every length up to nmax.
func H_C09long(f, nmax int) {
	n := verif.Concrete(verif.IntRange(0, nmax+1))
	CheckLexer(longSource(f, n), true)
	verif.Cover("long-checked")
}

// lexWords are lexemes whose reading could depend on their neighbours if the lexer
// kept context: keywords, the join-side names, signs and exponents, quotes, comments.
var lexWords = []string{"$left", "$right", ".", "by", "in", "and", "or", "a", "1", "e5", "+", "-", "'", "//", "`", ";", "(", "=", "!", "0x", "\n"}

// H_C09lex checks the lexer on every sequence of k lexemes of lexWords, each pair
// joined directly or by one space (the token language has no context beyond the
// longest-lexeme rule; a context-dependent lexer shows here).
func H_C09lex(k int) {
	src := ""
	for i := 0; i < k; i++ {
		if i > 0 && verif.Bool() {
			src += " "
		}
		src += lexWords[verif.Concrete(verif.IntRange(0, len(lexWords)))]
	}
	CheckLexer(src, false)
	verif.Cover("lexeme-sequences")
}

// approxDecimal is the value of an integer spelling computed with a handful of
// roundings (relative error far below 1e-14); ok=false for other spellings.
func approxDecimal(sp string) (float64, bool) {
	if len(sp) == 0 || len(sp) > 300 {
		return 0, false
	}
	v := 0.0
	for i := 0; i < len(sp); i += 15 {
		j := i + 15
		if j > len(sp) {
			j = len(sp)
		}
		var chunk uint64
		for k := i; k < j; k++ {
			if !isDig(sp[k]) {
				return 0, false
			}
			chunk = chunk*10 + uint64(sp[k]-'0')
		}
		v = v*pow10tab[j-i] + float64(chunk)
	}
	return v, true
}

// CheckLexer is the C09 check of one source; intFloat adds the Float64 accessor of
// integer literals (one path per concrete spelling).
func CheckLexer(src string, intFloat bool) {
	got := parser.Scan(src)
	verif.Obs("tokens", DumpTokens(got))

	// order, containment, gaps
	prev := 0
	for _, t := range got {
		verif.Assert(t.Span.Start >= prev, "tokens overlap or are out of order")
		verif.Assert(t.Span.Start <= t.Span.End && t.Span.End <= len(src), "token span outside the source")
		if t.Kind != parser.TokenError {
			verif.Assert(t.Span.Start < t.Span.End, "empty token")
		}
		verif.Assert(gapOK(src[prev:t.Span.Start]), "text between tokens is not white space or comment")
		prev = t.Span.End
	}
	verif.Assert(gapOK(src[prev:]), "text after the last token is not white space or comment")

	// the documented tokens
	want, stop := RefScan(src)
	CompareTokens(got, want, stop)

	// scanning a token's own text alone gives the same token
	for i, t := range got {
		if i == stop {
			break
		}
		alone := parser.Scan(src[t.Span.Start:t.Span.End])
		verif.Assert(len(alone) == 1, "a token's own text does not scan to one token")
		if len(alone) == 1 {
			a := alone[0]
			verif.Assert(a.Kind == t.Kind && a.Span.Start == 0 && a.Span.End == t.Span.End-t.Span.Start, "a token's own text scans to a different token")
			if t.Kind != parser.TokenError {
				verif.Assert(a.Value == t.Value, "a token's own text scans to a different value")
			}
		}
	}

	// numeric accessors agree with the spelling
	for _, t := range got {
		if t.Kind != parser.TokenNumber {
			continue
		}
		verif.Cover("number")
		sp := src[t.Span.Start:t.Span.End]
		lit := &parser.BasicLit{ValueSpan: t.Span, Kind: t.Kind, Value: t.Value}
		hex := len(sp) >= 2 && (sp[1] == 'x' || sp[1] == 'X')
		float := false
		if !hex {
			for i := 0; i < len(sp); i++ {
				if sp[i] == '.' || sp[i] == 'e' || sp[i] == 'E' {
					float = true
				}
			}
		}
		verif.Assert(lit.IsFloat() == float, "IsFloat disagrees with the spelling")
		verif.Assert(lit.IsInteger() == !float, "IsInteger disagrees with the spelling")
		if !float {
			var v uint64
			overflow := false
			if hex {
				for i := 2; i < len(sp); i++ {
					v = v<<4 | hexVal(sp[i])
				}
				verif.Cover("hex-number")
			} else {
				for i := 0; i < len(sp); i++ {
					d := uint64(sp[i] - '0')
					if v > (1<<64-1-d)/10 {
						overflow = true
					}
					v = v*10 + d
				}
			}
			if overflow {
				v = 0
			}
			verif.Assert(lit.Uint64() == v, "Uint64 disagrees with the digits written in the source")
			if !hex && intFloat {
				// Float64 of an integer literal, to within a relative error of 1e-14
				spc := verif.ConcreteStr(sp)
				lit2 := &parser.BasicLit{ValueSpan: t.Span, Kind: t.Kind, Value: verif.ConcreteStr(t.Value)}
				if approx, ok := approxDecimal(spc); ok {
					f := lit2.Float64()
					verif.Assert(f >= approx*(1-1e-14) && f <= approx*(1+1e-14), "Float64 of an integer literal is not its value")
					verif.Cover("integer-float-checked")
				}
			}
		} else {
			// floating point is outside the solver's theories: the spelling is made concrete (one
			// path per spelling within the bound) and the accessor's result compared with the
			// correctly rounded value where one rounding step computes it (|decimal exponent| <= 22)
			spc := verif.ConcreteStr(sp)
			lit2 := &parser.BasicLit{ValueSpan: t.Span, Kind: t.Kind, Value: verif.ConcreteStr(t.Value)}
			if want, exact := refFloat(spc); exact {
				verif.Assert(lit2.Float64() == want, "Float64 disagrees with the literal's spelling")
				if want < 1e18 {
					verif.Assert(lit2.Uint64() == uint64(want), "Uint64 of a float literal disagrees with its spelling")
				}
				verif.Cover("float-value-checked")
			}
		}
	}
	if len(got) > 0 {
		verif.Cover("has-token")
	}
	if len(got) > 1 {
		verif.Cover("two-tokens")
	}
	for _, t := range got {
		switch t.Kind {
		case parser.TokenString:
			verif.Cover("string")
		case parser.TokenQuotedIdentifier:
			verif.Cover("quoted-ident")
		case parser.TokenError:
			verif.Cover("error-token")
		case parser.TokenIdentifier:
			verif.Cover("ident")
		}
	}
}

var pow10tab = [...]float64{1e0, 1e1, 1e2, 1e3, 1e4, 1e5, 1e6, 1e7, 1e8, 1e9, 1e10, 1e11, 1e12, 1e13, 1e14, 1e15, 1e16, 1e17, 1e18, 1e19, 1e20, 1e21, 1e22}

// refFloat computes the value of a decimal floating-point spelling when a single
// correctly rounded operation gives it: mantissa below 2^53 and a decimal
// exponent of magnitude at most 22 (both operands exact). exact=false otherwise.
func refFloat(sp string) (v float64, exact bool) {
	var m uint64
	e10 := 0
	i := 0
	for i < len(sp) && isDig(sp[i]) {
		if m >= 1<<53/10 {
			return 0, false
		}
		m = m*10 + uint64(sp[i]-'0')
		i++
	}
	if i < len(sp) && sp[i] == '.' {
		i++
		for i < len(sp) && isDig(sp[i]) {
			if m >= 1<<53/10 {
				return 0, false
			}
			m = m*10 + uint64(sp[i]-'0')
			e10--
			i++
		}
	}
	if i < len(sp) && (sp[i] == 'e' || sp[i] == 'E') {
		i++
		neg := false
		if i < len(sp) && (sp[i] == '+' || sp[i] == '-') {
			neg = sp[i] == '-'
			i++
		}
		x := 0
		for i < len(sp) && isDig(sp[i]) {
			if x > 1000 {
				return 0, false
			}
			x = x*10 + int(sp[i]-'0')
			i++
		}
		if neg {
			x = -x
		}
		e10 += x
	}
	if i != len(sp) {
		return 0, false
	}
	switch {
	case m == 0:
		return 0, true
	case 0 <= e10 && e10 <= 22:
		return float64(m) * pow10tab[e10], true
	case -22 <= e10 && e10 < 0:
		return float64(m) / pow10tab[-e10], true
	}
	return 0, false
}
